#!/bin/sh
# usage: tools/confirm_seed.sh <seed_dir> — in a scratch worktree: patch applies, packages build, existing tests pass,
# demo fails with the patch and passes without it.  Prints a summary; removes the worktree.
D=$1
export GOFLAGS=-mod=mod GOPROXY=off GOSUMDB=off GOTOOLCHAIN=local
W=/tmp/wt_confirm_$$
git -C /repo worktree add --detach $W HEAD >/dev/null 2>&1 || exit 2
trap 'git -C /repo worktree remove --force $W >/dev/null 2>&1' EXIT
DEMO=$(cat $D/demo_path.txt)
PKG=$(dirname $DEMO)
DEMOCMD=$(python3 -c "import json;print(json.load(open('$D/meta.json')).get('demo_cmd',''))" | sed 's#cd /tmp/wt_[A-Za-z0-9_]* *&& *##; s#/tmp/wt_[A-Za-z0-9_]*/##g')
case "$DEMOCMD" in "go test"*) ;; *) DEMOCMD="go test -count=1 ./$PKG/ -run SeedDemo|Seed";; esac
PKGS=$(python3 -c "import json;print(' '.join('./'+p.replace('github.com/snapcore/snapd/','').strip('./')+'/' for p in json.load(open('$D/meta.json'))['touched_packages']))")
cd $W
cp $D/zz_seed_demo_test.go $W/$DEMO
echo "== clean tree demo (must pass): $DEMOCMD"; sh -c "$DEMOCMD" 2>&1 | tail -3
rm $W/$DEMO
git apply $D/patch.diff || { echo "PATCH DOES NOT APPLY"; exit 1; }
echo "== build + existing tests with patch (must pass): $PKGS"; go build ./... 2>&1 | tail -3; go test -count=1 $PKGS 2>&1 | tail -5
cp $D/zz_seed_demo_test.go $W/$DEMO
echo "== patched demo (must fail)"; sh -c "$DEMOCMD" 2>&1 | tail -4
