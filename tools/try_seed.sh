#!/bin/sh
# usage: tools/try_seed.sh <seed_dir> <PROP> [tier] — run the check against a scratch worktree of /repo
# with the seeded patch applied (VERIF_REPO points the check at it); /repo itself is not touched.
D=$1; P=$2; T=${3:-quick}
W=/tmp/wt_try_$$
git -C /repo worktree add --detach $W HEAD >/dev/null 2>&1 || exit 2
trap 'git -C /repo worktree remove --force $W >/dev/null 2>&1' EXIT
(cd $W && git apply "$D/patch.diff") || { echo "patch does not apply"; exit 2; }
cd /verif && VERIF_REPO=$W bin/symgo check "$P" --tier "$T" --no-evidence --repo $W >/tmp/try_seed_$$.out 2>&1
rc=$?
grep -v "^\[" /tmp/try_seed_$$.out | cut -c1-400 | tail -${LINES_OUT:-6}
echo "exit=$rc"
rm -f /tmp/try_seed_$$.out
