#!/bin/sh
# usage: tools/try_seed.sh <seed_dir> <PROP> [tier] — apply the seeded patch to /repo, run the check, undo.
D=$1; P=$2; T=${3:-quick}
cd /repo || exit 2
git diff --quiet || { echo "/repo has uncommitted changes"; exit 2; }
git apply "$D/patch.diff" || { echo "patch does not apply"; exit 2; }
cd /verif && ./check "$P" "$T" --no-evidence 2>&1 | grep -v "^\[" | cut -c1-400 | tail -${LINES_OUT:-8}
(cd /verif && bin/symgo check "$P" --tier "$T" --no-evidence >/tmp/try_seed.out 2>&1; echo "exit=$?")
cd /repo && git checkout -- . 
