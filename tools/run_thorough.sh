#!/bin/sh
# usage: tools/run_thorough.sh [timeout_s] [ids...] — run the thorough tier of every (or the given) claimed check with a
# per-check time limit; prints id, exit code (124 = time limit) and wall time. Evidence is not rewritten (--no-evidence).
L=${1:-1800}; shift 2>/dev/null
cd /verif
IDS="$@"
[ -z "$IDS" ] && IDS=$(python3 -c "import json;print(' '.join(c['property_id'] for c in json.load(open('MANIFEST.json'))['checks']))")
for id in $IDS; do
  s=$(date +%s)
  timeout $L bin/symgo check $id --tier thorough --no-evidence > /tmp/run_thorough_$id.log 2>&1
  rc=$?
  e=$(date +%s)
  echo "$id exit=$rc $((e-s))s $(grep -c '^KNOWN-FINDING' /tmp/run_thorough_$id.log) known $(grep -c '^PROBLEM' /tmp/run_thorough_$id.log) problems"
done
