#!/usr/bin/env python3
"""usage: keep_seed.py <seed_dir> <id> <property> <detected: yes|no> <check output summary...>
Copies a confirmed seeded change into /verif/seeded/<id>/ and extends its meta.json."""
import json, os, shutil, sys
src, sid, prop, detected = sys.argv[1:5]
note = " ".join(sys.argv[5:])
dst = f"/verif/seeded/{sid}"
os.makedirs(dst, exist_ok=True)
for f in ("patch.diff", "zz_seed_demo_test.go", "demo_path.txt"):
    shutil.copy(os.path.join(src, f), dst)
meta = json.load(open(os.path.join(src, "meta.json")))
meta["property"] = prop
meta["confirmed_by"] = "tools/confirm_seed.sh (scratch worktree: patch applies, touched packages' existing tests pass, demo fails with the patch and passes without)"
meta["check_run"] = f"tools/try_seed.sh {dst} {prop} quick"
meta["detected_by_check"] = detected == "yes"
meta["check_result"] = note
json.dump(meta, open(os.path.join(dst, "meta.json"), "w"), indent=1)
print("kept", dst)
