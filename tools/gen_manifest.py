#!/usr/bin/env python3
"""Regenerates /verif/MANIFEST.json from harness/props.json and tools/manifest_meta.json.
Every property of properties.jsonl is either claimed (has harnesses in props.json and a meta entry)
or listed under not_applicable with its reason."""
import json, os, sys
V = os.path.dirname(os.path.dirname(os.path.abspath(__file__)))
props = json.load(open(os.path.join(V, "harness", "props.json")))
meta = json.load(open(os.path.join(V, "tools", "manifest_meta.json")))
ids = [json.loads(l)["id"] for l in open(os.path.join(V, "properties.jsonl"))]
checks, na = [], []
for pid in ids:
    m = meta.get(pid, {})
    if pid in props and m.get("claim"):
        checks.append({
            "property_id": pid,
            "quick_cmd": f"./check {pid} quick",
            "thorough_cmd": f"./check {pid} thorough",
            "evidence_file": f"evidence/{pid}.json",
            "replay_cmd_template": "./check --replay {path}",
            "engine": "symgo",
            "technique": m.get("technique", "bounded symbolic execution of the Go SSA of the real functions; every assertion discharged by an SMT solver (z3 5.1 bit-blast / cvc5 int-blast portfolio) on every feasible path"),
            "level_claimed": {"category": "model_checking", "text": m["claim"], "design_ref": f"DESIGN.md §3 {pid}"},
            "level_note": m["note"],
        })
    else:
        na.append({"property_id": pid, "reason": m.get("na", "not built yet in this round: no harness registered; see DESIGN.md §3 " + pid)})
man = {
    "version": 1,
    "setup_cmd": "mkdir -p bin && cd engine/symgo && GOFLAGS=-mod=mod GOPROXY=off GOSUMDB=off GOTOOLCHAIN=local CGO_ENABLED=0 go build -o ../../bin/symgo . && cd ../.. && bin/symgo selftest",
    "hooks": {
        "guard": "verif",
        "enable": "no source hooks: harnesses and stubs are injected with go/packages build overlays (in-package files zz_verif_*.go and package zzverif); the tag 'verif' is reserved",
        "baseline_off_cmd": "cd /repo && GOFLAGS=-mod=mod GOPROXY=off GOSUMDB=off GOTOOLCHAIN=local go test -json -vet=off -count=1 -timeout 25m ./...",
        "source_commits": [],
        "add_only": True,
    },
    "engines": [{
        "name": "symgo", "path": "engine/symgo",
        "serves_properties": [c["property_id"] for c in checks],
        "kind_free_text": "symbolic interpreter for go/ssa (x/tools v0.29.0) of /repo's current sources: symbolic scalars as SMT bit-vector terms, concrete heap shape, re-execution DFS over solver-decided branches, z3/cvc5 portfolio, concrete re-execution replay of counterexamples",
    }],
    "checks": checks,
    "not_applicable": na,
    "notes": "Exit codes of ./check: 0 = every assertion unsat on every feasible path within the bounds; 1 = confirmed (replayed) violation, VIOLATION line printed; 2 = undecided (engine limitation, solver unknown, truncated exploration, unreached label) — never reported as success or as a violation. Known findings: known_findings.json.",
}
json.dump(man, open(os.path.join(V, "MANIFEST.json"), "w"), indent=1)
print(f"claimed {len(checks)}, not_applicable {len(na)}")
