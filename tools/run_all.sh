#!/bin/sh
# usage: tools/run_all.sh [quick|thorough] — run every claimed check, print id, exit code and wall time
T=${1:-quick}
cd /verif
for id in $(python3 -c "import json;print(' '.join(c['property_id'] for c in json.load(open('MANIFEST.json'))['checks']))"); do
  s=$(date +%s)
  ./check $id $T > /tmp/run_all_$id.log 2>&1
  rc=$?
  e=$(date +%s)
  echo "$id exit=$rc $((e-s))s $(grep -c '^KNOWN-FINDING' /tmp/run_all_$id.log) known $(grep -c '^PROBLEM' /tmp/run_all_$id.log) problems"
done
