#!/bin/sh
# usage: tools/recheck_seeds.sh [names...] — re-run every kept seed against its check in a scratch worktree and compare
# the outcome with the recorded detected_by_check flag.
cd /verif
NAMES="$@"
[ -z "$NAMES" ] && NAMES=$(ls seeded)
for n in $NAMES; do
  d=/verif/seeded/$n
  prop=$(python3 -c "import json;print(json.load(open('$d/meta.json'))['property'])")
  want=$(python3 -c "import json;print(json.load(open('$d/meta.json'))['detected_by_check'])")
  tier=quick
  case "$n" in C38_minsize_previous_end|C38_content_fit_check_moved) tier=thorough;; esac
  out=$(tools/try_seed.sh $d $prop $tier 2>&1 | tail -1)
  echo "$n prop=$prop tier=$tier recorded=$want now=$out"
done
