package main

import (
	"crypto/sha1"
	"encoding/json"
	"flag"
	"fmt"
	"os"
	"path/filepath"
	"sort"
	"strconv"
	"strings"
	"time"

	"symgo/interp"
	"symgo/smt"
)

// ---- configuration (harness/props.json) ----

type HarnessCfg struct {
	Fn               string         `json:"fn"`
	Quick            map[string]int `json:"quick"`
	Thorough         map[string]int `json:"thorough"`
	Skip             string         `json:"skip,omitempty"` // "quick" => only in thorough
	CVC              bool           `json:"prefer_cvc,omitempty"`
	MapOrder         string         `json:"map_order,omitempty"`
	MaxSec           int            `json:"max_sec,omitempty"`
	What             string         `json:"what,omitempty"`
	Optional         []string       `json:"optional_labels,omitempty"`          // labels unreachable with this harness configuration
	OptionalQuick    []string       `json:"optional_labels_quick,omitempty"`    // labels that need the thorough bounds to be reachable
	OptionalThorough []string       `json:"optional_labels_thorough,omitempty"` // labels the thorough configuration cannot reach
}

type UnitCfg struct {
	Pkg       string            `json:"pkg"`             // relative to the module root
	Files     []string          `json:"files"`           // relative to /verif/harness
	Stubs     map[string]string `json:"stubs,omitempty"` // repo-relative path -> file under /verif/stubs replacing it
	Init      []string          `json:"init,omitempty"`
	Once      []string          `json:"once,omitempty"`
	Env       map[string]string `json:"env,omitempty"`
	ZeroStubs []string          `json:"zero_stubs,omitempty"` // functions replaced by "return zero values"
	Harnesses []HarnessCfg      `json:"harnesses"`
}

type PropCfg struct {
	Units       []UnitCfg `json:"units"`
	Assumptions []string  `json:"assumptions"`
	Explanation string    `json:"explanation"`
}

type KnownFinding struct {
	Property string `json:"property"`
	Label    string `json:"label"`
	What     string `json:"what"`
	Status   string `json:"status"` // "known" or "fixed"
	Commit   string `json:"commit,omitempty"`
}

type ReplayFile struct {
	Property  string            `json:"property"`
	Pkg       string            `json:"pkg"`
	Files     []string          `json:"files"`
	Init      []string          `json:"init,omitempty"`
	Once      []string          `json:"once,omitempty"`
	Env       map[string]string `json:"env,omitempty"`
	Stubs     map[string]string `json:"stubs,omitempty"`
	ZeroStubs []string          `json:"zero_stubs,omitempty"`
	Harness   string            `json:"harness"`
	Label     string            `json:"label"`
	Msg       string            `json:"msg,omitempty"`
	Trace     string            `json:"trace,omitempty"`
	Values    map[string]uint64 `json:"values"`
	Params    map[string]int    `json:"params"`
	MapOrder  string            `json:"map_order,omitempty"`
}

func loadProps(verif string) (map[string]PropCfg, error) {
	data, err := os.ReadFile(filepath.Join(verif, "harness", "props.json"))
	if err != nil {
		return nil, err
	}
	var m map[string]PropCfg
	if err := json.Unmarshal(data, &m); err != nil {
		return nil, fmt.Errorf("props.json: %v", err)
	}
	return m, nil
}

func loadKnown(verif string) []KnownFinding {
	data, err := os.ReadFile(filepath.Join(verif, "known_findings.json"))
	if err != nil {
		return nil
	}
	var doc struct {
		Findings []KnownFinding `json:"findings"`
	}
	json.Unmarshal(data, &doc)
	return doc.Findings
}

func loadUnit(repo, verif string, u UnitCfg) (*interp.Program, error) {
	var files []string
	for _, f := range u.Files {
		files = append(files, filepath.Join(verif, "harness", f))
	}
	ov, err := overlayFor(repo, verif, u.Pkg, files)
	if err != nil {
		return nil, err
	}
	for target, src := range u.Stubs {
		data, err := os.ReadFile(filepath.Join(verif, "stubs", src))
		if err != nil {
			return nil, err
		}
		ov[filepath.Join(repo, target)] = data
	}
	return interp.Load(interp.LoadConfig{Dir: repo, Patterns: []string{"./" + u.Pkg}, Overlay: ov,
		Env: []string{"GOFLAGS=-mod=mod", "GOPROXY=off", "GOSUMDB=off", "GOTOOLCHAIN=local", "CGO_ENABLED=0"}})
}

func exploreCfg(u UnitCfg, h HarnessCfg, params map[string]int, workers int) interp.ExploreConfig {
	ec := interp.ExploreConfig{
		HarnessPkg: snapd + "/" + u.Pkg, HarnessFn: h.Fn, Workers: workers,
		Solver: smt.Options{PreferCVC: h.CVC}, Params: params, Env: u.Env, MapOrder: h.MapOrder, ZeroStubs: u.ZeroStubs,
	}
	ec.OnceInit = append(defaultOnce(), u.Once...)
	if len(u.Init) > 0 {
		for _, p := range u.Init {
			if strings.Contains(p, ".") || !strings.Contains(p, "/") && isStd(p) {
				ec.PathInit = append(ec.PathInit, p)
			} else {
				ec.PathInit = append(ec.PathInit, snapd+"/"+p)
			}
		}
	} else {
		ec.PathInit = []string{snapd + "/" + u.Pkg}
	}
	if h.MaxSec > 0 {
		ec.Deadline = time.Duration(h.MaxSec) * time.Second
	}
	return ec
}

func isStd(p string) bool {
	switch p {
	case "time", "regexp", "os", "sync", "errors", "io", "sort", "strings", "bytes":
		return true
	}
	return false
}

type harnessReport struct {
	Unit       string         `json:"pkg"`
	Fn         string         `json:"harness"`
	What       string         `json:"what,omitempty"`
	Params     map[string]int `json:"bounds"`
	Paths      int            `json:"paths"`
	ByStatus   map[string]int `json:"paths_by_status"`
	SymPaths   int            `json:"complete_paths_with_symbolic_decisions"`
	AssertQ    int            `json:"assertion_queries"`
	AssertHit  map[string]int `json:"assert_labels_hit"`
	Reached    map[string]int `json:"reach_labels_hit"`
	Queries    int            `json:"solver_queries"`
	Sat        int            `json:"sat"`
	Unsat      int            `json:"unsat"`
	Unknown    int            `json:"unknown"`
	BySolver   map[string]int `json:"by_solver"`
	SolverSec  float64        `json:"solver_cpu_s"`
	WallSec    float64        `json:"wall_s"`
	Steps      int64          `json:"ssa_instructions_executed"`
	NFuncs     int            `json:"functions_entered"`
	Funcs      []string       `json:"repo_functions_encoded"`
	Intrinsics []string       `json:"intrinsics_and_stubs_hit"`
	OpaqueFmt  int            `json:"opaque_format_results"`
	Exhausted  bool           `json:"worklist_exhausted"`
	MaxDec     int            `json:"max_decisions_on_a_path"`
	Problems   []string       `json:"problems,omitempty"`
	Samples    []string       `json:"samples"`
	Violations int            `json:"violations"`
}

func cmdCheck(args []string) int {
	fs := flag.NewFlagSet("check", flag.ExitOnError)
	repo := fs.String("repo", "/repo", "")
	verif := fs.String("verif", "/verif", "")
	tier := fs.String("tier", "quick", "quick|thorough")
	workers := fs.Int("workers", 16, "")
	only := fs.String("only", "", "run only this harness function")
	noEvidence := fs.Bool("no-evidence", false, "")
	if len(args) < 1 {
		fmt.Fprintln(os.Stderr, "usage: symgo check <PROPERTY> [--tier quick|thorough]")
		return 2
	}
	prop := args[0]
	fs.Parse(args[1:])
	if t := os.Getenv("VERIF_TIER"); t != "" && !flagSet(fs, "tier") {
		*tier = t
	}
	seed := int64(0)
	if s := os.Getenv("VERIF_SEED"); s != "" {
		seed, _ = strconv.ParseInt(s, 10, 64)
	}
	props, err := loadProps(*verif)
	if err != nil {
		fmt.Fprintln(os.Stderr, err)
		return 2
	}
	pc, ok := props[prop]
	if !ok {
		fmt.Fprintf(os.Stderr, "property %s has no harness configuration\n", prop)
		return 2
	}
	known := loadKnown(*verif)
	t0 := time.Now()
	var reports []harnessReport
	var problems []string
	type foundViolation struct {
		v      interp.Violation
		u      UnitCfg
		h      HarnessCfg
		params map[string]int
	}
	var found []foundViolation
	for _, u := range pc.Units {
		tl := time.Now()
		prog, err := loadUnit(*repo, *verif, u)
		if err != nil {
			fmt.Fprintf(os.Stderr, "load %s: %v\n", u.Pkg, err)
			problems = append(problems, "load "+u.Pkg+": "+firstLine(err.Error()))
			continue
		}
		fmt.Fprintf(os.Stderr, "[%s] loaded %s in %.1fs\n", prop, u.Pkg, time.Since(tl).Seconds())
		for _, h := range u.Harnesses {
			if *only != "" && h.Fn != *only {
				continue
			}
			if h.Skip == *tier {
				continue
			}
			params := h.Quick
			if *tier == "thorough" && h.Thorough != nil {
				params = h.Thorough
			}
			if params == nil {
				params = map[string]int{}
			}
			ec := exploreCfg(u, h, params, *workers)
			if seed%2 == 1 && ec.MapOrder == "" {
				ec.MapOrder = "reverse" // VERIF_SEED permutes map iteration order
				h.MapOrder = "reverse"  // (recorded in the replay file)
			}
			expect := prog.HarnessLabels(ec.HarnessPkg, h.Fn)
			res, err := prog.Explore(ec)
			if err != nil {
				problems = append(problems, h.Fn+": "+err.Error())
				continue
			}
			rep := harnessReport{Unit: u.Pkg, Fn: h.Fn, What: h.What, Params: params, Paths: res.Paths, ByStatus: res.ByStatus, SymPaths: res.SymPaths,
				AssertQ: res.Asserts, AssertHit: res.AssertHit, Reached: res.Reached, Queries: res.Solver.Queries, Sat: res.Solver.Sat,
				Unsat: res.Solver.Unsat, Unknown: res.Solver.Unknown, BySolver: res.Solver.BySolver, SolverSec: round3(res.Solver.SolverSec),
				WallSec: round3(res.WallSec), Steps: res.Steps, NFuncs: len(res.Funcs), OpaqueFmt: res.OpaqueFmt, Exhausted: res.Exhausted,
				MaxDec: res.MaxDecisions, Problems: res.Problems, Samples: res.Samples, Violations: len(res.Violations)}
			for f := range res.Funcs {
				if strings.Contains(f, "snapcore/snapd") && !strings.Contains(f, "Harness_") && !strings.Contains(f, "zzverif") {
					rep.Funcs = append(rep.Funcs, strings.ReplaceAll(f, snapd+"/", ""))
				}
			}
			sort.Strings(rep.Funcs)
			if len(rep.Funcs) > 80 {
				rep.Funcs = append(rep.Funcs[:80], fmt.Sprintf("… and %d more", len(rep.Funcs)-80))
			}
			for f := range res.Intrinsics {
				if !strings.Contains(f, "zzverif.") {
					rep.Intrinsics = append(rep.Intrinsics, f)
				}
			}
			sort.Strings(rep.Intrinsics)
			reports = append(reports, rep)
			fmt.Fprintf(os.Stderr, "[%s] %s %v: paths=%d %v queries=%d (unknown %d) asserts=%d violations=%d wall=%.1fs\n",
				prop, h.Fn, params, res.Paths, res.ByStatus, res.Solver.Queries, res.Solver.Unknown, res.Asserts, len(res.Violations), res.WallSec)
			for _, p := range res.Problems {
				problems = append(problems, h.Fn+": "+firstLine(p))
			}
			if !res.Exhausted {
				problems = append(problems, h.Fn+": exploration truncated (deadline or path cap) — bound not covered")
			}
			if len(res.Problems) == 0 && res.Exhausted {
				var missing []string
				for _, l := range expect {
					if (*tier == "quick" && contains(h.OptionalQuick, l)) || (*tier == "thorough" && contains(h.OptionalThorough, l)) || contains(h.Optional, l) {
						continue
					}
					if res.AssertHit[l] == 0 && res.Reached[l] == 0 {
						missing = append(missing, l)
					}
				}
				if len(missing) > 0 {
					problems = append(problems, fmt.Sprintf("%s: labels never reached (vacuity guard): %s", h.Fn, strings.Join(missing, ", ")))
				}
			}
			for _, v := range res.Violations {
				found = append(found, foundViolation{v, u, h, params})
			}
		}
	}

	// triage violations: dedupe by label, replay concretely, match known findings
	exit := 0
	seenLabel := map[string]bool{}
	var lines []string
	nviol := 0
	unconfirmed := 0
	sort.SliceStable(found, func(a, b int) bool { return found[a].v.Label < found[b].v.Label })
	for _, fv := range found {
		if seenLabel[fv.v.Label] {
			continue
		}
		seenLabel[fv.v.Label] = true
		kf := matchKnown(known, prop, fv.v.Label)
		rf := ReplayFile{Property: prop, Pkg: fv.u.Pkg, Files: fv.u.Files, Init: fv.u.Init, Once: fv.u.Once, Env: fv.u.Env, Stubs: fv.u.Stubs, ZeroStubs: fv.u.ZeroStubs,
			Harness: fv.h.Fn, Label: fv.v.Label, Msg: fv.v.Msg, Trace: fv.v.Trace, Values: map[string]uint64{}, Params: fv.params, MapOrder: fv.h.MapOrder}
		for _, nd := range fv.v.Nondet {
			rf.Values[nd.Name] = nd.Value
		}
		data, _ := json.MarshalIndent(rf, "", " ")
		sum := sha1.Sum(data)
		dir := filepath.Join(*verif, "replays", prop)
		os.MkdirAll(dir, 0755)
		path := filepath.Join(dir, fmt.Sprintf("%s-%x.json", sanitize(fv.v.Label), sum[:4]))
		os.WriteFile(path, data, 0644)
		ok, msg := replayFile(*repo, *verif, path, true)
		if !ok {
			unconfirmed++
			problems = append(problems, fmt.Sprintf("counterexample for %s did not reproduce concretely (%s): engine/stub defect, not reported as a violation", fv.v.Label, msg))
			continue
		}
		if kf != nil {
			lines = append(lines, fmt.Sprintf("KNOWN-FINDING: property=%s %s [label %s, replay %s]", prop, kf.What, fv.v.Label, path))
			continue
		}
		nviol++
		lines = append(lines, fmt.Sprintf("VIOLATION property=%s replay=%s", prop, path))
		fmt.Fprintf(os.Stderr, "  %s: %s %s\n  inputs: %s\n", fv.v.Label, fv.v.Msg, msg, compactValues(rf.Values))
	}
	if nviol > 0 {
		exit = 1
	} else if len(problems) > 0 {
		exit = 2
	}
	for _, l := range lines {
		fmt.Println(l)
	}
	for _, p := range problems {
		fmt.Fprintln(os.Stderr, "PROBLEM:", p)
	}
	if !*noEvidence {
		writeEvidence(*verif, prop, *tier, seed, pc, reports, problems, nviol, time.Since(t0).Seconds())
	}
	if exit == 0 {
		fmt.Printf("OK property=%s tier=%s harnesses=%d wall=%.1fs\n", prop, *tier, len(reports), time.Since(t0).Seconds())
	} else if exit == 2 {
		fmt.Printf("UNDECIDED property=%s tier=%s (%d problems; no violation reported)\n", prop, *tier, len(problems))
	}
	return exit
}

func flagSet(fs *flag.FlagSet, name string) bool {
	set := false
	fs.Visit(func(f *flag.Flag) {
		if f.Name == name {
			set = true
		}
	})
	return set
}

func firstLine(s string) string {
	if i := strings.IndexByte(s, '\n'); i >= 0 {
		s = s[:i]
	}
	if len(s) > 500 {
		s = s[:500] + "…"
	}
	return s
}

func round3(f float64) float64 { return float64(int64(f*1000)) / 1000 }

func sanitize(s string) string {
	return strings.Map(func(r rune) rune {
		if (r >= 'a' && r <= 'z') || (r >= 'A' && r <= 'Z') || (r >= '0' && r <= '9') || r == '-' || r == '_' {
			return r
		}
		return '_'
	}, s)
}

func compactValues(m map[string]uint64) string {
	var keys []string
	for k := range m {
		keys = append(keys, k)
	}
	sort.Strings(keys)
	var parts []string
	for _, k := range keys {
		parts = append(parts, fmt.Sprintf("%s=%d", k, m[k]))
	}
	s := strings.Join(parts, " ")
	if len(s) > 600 {
		s = s[:600] + "…"
	}
	return s
}

func matchKnown(known []KnownFinding, prop, label string) *KnownFinding {
	for k := range known {
		if known[k].Property == prop && known[k].Label == label && known[k].Status != "fixed" {
			return &known[k]
		}
	}
	return nil
}

// replayFile re-executes the harness concretely with the recorded values; ok means the recorded label fails again.
func replayFile(repo, verif, path string, quiet bool) (bool, string) {
	data, err := os.ReadFile(path)
	if err != nil {
		return false, err.Error()
	}
	var rf ReplayFile
	if err := json.Unmarshal(data, &rf); err != nil {
		return false, err.Error()
	}
	u := UnitCfg{Pkg: rf.Pkg, Files: rf.Files, Init: rf.Init, Once: rf.Once, Env: rf.Env, Stubs: rf.Stubs, ZeroStubs: rf.ZeroStubs}
	prog, err := loadUnit(repo, verif, u)
	if err != nil {
		return false, "load: " + firstLine(err.Error())
	}
	ec := exploreCfg(u, HarnessCfg{Fn: rf.Harness, MapOrder: rf.MapOrder}, rf.Params, 1)
	ec.Replay = rf.Values
	if ec.Replay == nil {
		ec.Replay = map[string]uint64{}
	}
	ec.Opts.StopAtFirstViolation = false
	res, err := prog.Explore(ec)
	if err != nil {
		return false, err.Error()
	}
	for _, v := range res.Violations {
		if v.Label == rf.Label {
			return true, "reproduced by concrete re-execution of the SSA: " + v.Msg
		}
	}
	return false, fmt.Sprintf("concrete re-execution ended %v, violations %d, problems %v", res.ByStatus, len(res.Violations), res.Problems)
}

func cmdReplay(args []string) int {
	fs := flag.NewFlagSet("replay", flag.ExitOnError)
	repo := fs.String("repo", "/repo", "")
	verif := fs.String("verif", "/verif", "")
	if len(args) < 1 {
		fmt.Fprintln(os.Stderr, "usage: symgo replay <file>")
		return 2
	}
	path := args[0]
	fs.Parse(args[1:])
	ok, msg := replayFile(*repo, *verif, path, false)
	data, _ := os.ReadFile(path)
	var rf ReplayFile
	json.Unmarshal(data, &rf)
	fmt.Printf("harness %s label %s\ninputs: %s\n%s\n", rf.Harness, rf.Label, compactValues(rf.Values), msg)
	if ok {
		fmt.Printf("VIOLATION property=%s replay=%s\n", rf.Property, path)
		return 1
	}
	fmt.Println("not reproduced")
	return 0
}

func writeEvidence(verif, prop, tier string, seed int64, pc PropCfg, reports []harnessReport, problems []string, nviol int, wall float64) {
	evals, sym, paths, queries := 0, 0, 0, 0
	var samples []interface{}
	var solverSec float64
	exhaustive := len(problems) == 0
	for _, r := range reports {
		evals += r.AssertQ
		sym += r.SymPaths
		paths += r.Paths
		queries += r.Queries
		solverSec += r.SolverSec
		if !r.Exhausted || r.Unknown > 0 {
			exhaustive = false
		}
		for _, s := range r.Samples {
			if len(samples) < 8 {
				samples = append(samples, map[string]string{"harness": r.Fn, "path": s})
			}
		}
	}
	if len(samples) == 0 {
		samples = append(samples, "no complete path (see problems)")
	}
	ev := map[string]interface{}{
		"property_id": prop,
		"tier":        tier,
		"seed":        seed,
		"level":       "model_checking",
		"wall_s":      round3(wall),
		"violations":  nviol,
		"assumptions": pc.Assumptions,
		"coverage": map[string]interface{}{
			"evaluations":         maxInt(evals, 0),
			"distinct_nontrivial": sym,
			"rule": "bounded symbolic execution of the real SSA: every feasible control path of the harness within the stated bounds is executed once (re-execution DFS, feasibility decided by the SMT solver); " +
				"evaluations = assertion queries (path-condition ∧ ¬property) discharged; distinct_nontrivial = complete paths that contain at least one solver-decided two-sided branch or value split (paths are distinct by their decision sequence)",
			"samples":              samples,
			"exhaustive":           exhaustive,
			"explanation":          pc.Explanation,
			"paths_explored":       paths,
			"solver_queries":       queries,
			"solver_cpu_s":         round3(solverSec),
			"harnesses":            reports,
			"problems":             problems,
			"solvers":              "z3 5.1.0 (bit-blast tactic, then default), cvc5 1.0.3 --solve-bv-as-int=sum as fallback",
			"outside_bounds_claim": "nothing is claimed for inputs, sizes or step counts beyond the 'bounds' listed per harness",
		},
	}
	os.MkdirAll(filepath.Join(verif, "evidence"), 0755)
	data, _ := json.MarshalIndent(ev, "", " ")
	os.WriteFile(filepath.Join(verif, "evidence", prop+".json"), data, 0644)
}

func maxInt(a, b int) int {
	if a > b {
		return a
	}
	return b
}

func contains(l []string, s string) bool {
	for _, x := range l {
		if x == s {
			return true
		}
	}
	return false
}
