package main

import (
	"fmt"
	"os"
	"path/filepath"
	"sync"

	"symgo/interp"
	"symgo/selftest/cases"
	"symgo/smt"
)

// cmdSelftest: differential test of the interpreter against native execution.
// Each case function is run natively on concrete inputs and symbolically with the
// inputs as solver variables pinned to the same values; the solver must prove the
// interpreter's result term equal to the native result on every feasible path.
func cmdSelftest(args []string) int {
	exe, _ := os.Executable()
	dir := filepath.Join(filepath.Dir(filepath.Dir(exe)), "engine", "symgo")
	if len(args) > 0 {
		dir = args[0]
	}
	prog, err := interp.Load(interp.LoadConfig{Dir: dir, Patterns: []string{"./selftest/cases"},
		Env: []string{"GOFLAGS=-mod=mod", "GOPROXY=off", "GOSUMDB=off", "GOTOOLCHAIN=local", "CGO_ENABLED=0"}})
	if err != nil {
		fmt.Fprintln(os.Stderr, "selftest load:", err)
		return 2
	}
	names := cases.Names()
	if os.Getenv("SELFTEST_DEBUG") != "" {
		cases.Debug = true
		for ci, n := range names {
			if n == os.Getenv("SELFTEST_DEBUG") {
				want := cases.Cases[n](3, 3)
				params := map[string]int{"case": ci, "xlo": 3, "ylo": 3, "wlo": int(uint32(want)), "whi": int(want >> 32), "debug": 1}
				ec := interp.ExploreConfig{HarnessPkg: "symgo/selftest/cases", HarnessFn: "Harness_Selftest", Workers: 1, OnceInit: defaultOnce(), PathInit: []string{"symgo/selftest/cases"}, Params: params}
				res, err := prog.Explore(ec)
				fmt.Println(err, res.ByStatus, res.Problems)
			}
		}
		return 0
	}
	type job struct {
		ci int
		in [2]int64
	}
	jobs := make(chan job, 64)
	var mu sync.Mutex
	fails, total := 0, 0
	var wg sync.WaitGroup
	for w := 0; w < 12; w++ {
		wg.Add(1)
		go func() {
			defer wg.Done()
			for j := range jobs {
				want := cases.Cases[names[j.ci]](j.in[0], j.in[1])
				params := map[string]int{"case": j.ci,
					"xlo": int(uint32(j.in[0])), "xhi": int(j.in[0] >> 32),
					"ylo": int(uint32(j.in[1])), "yhi": int(j.in[1] >> 32),
					"wlo": int(uint32(want)), "whi": int(want >> 32)}
				ec := interp.ExploreConfig{HarnessPkg: "symgo/selftest/cases", HarnessFn: "Harness_Selftest", Workers: 1,
					OnceInit: defaultOnce(), PathInit: []string{"symgo/selftest/cases"}, Params: params, Solver: smt.Options{}}
				res, err := prog.Explore(ec)
				bad := ""
				switch {
				case err != nil:
					bad = err.Error()
				case len(res.Violations) > 0:
					bad = fmt.Sprintf("interpreter result differs from native %d (%s)", want, res.Violations[0].Msg)
				case len(res.Problems) > 0:
					bad = res.Problems[0]
				case res.Reached["end"] == 0:
					bad = fmt.Sprintf("end not reached: %v", res.ByStatus)
				}
				mu.Lock()
				total++
				if bad != "" {
					fails++
					fmt.Fprintf(os.Stderr, "selftest FAIL %s(%d,%d): %s\n", names[j.ci], j.in[0], j.in[1], firstLine(bad))
				}
				mu.Unlock()
			}
		}()
	}
	for ci := range names {
		for _, in := range cases.Inputs {
			jobs <- job{ci, in}
		}
	}
	close(jobs)
	wg.Wait()
	fmt.Printf("selftest: %d cases x %d inputs, %d failures\n", len(names), len(cases.Inputs), fails)
	if fails > 0 {
		return 2
	}
	return 0
}
