package cases

import zz "symgo/zzverif"

// Harness_Selftest runs one case with symbolic inputs pinned to the given values and asserts the native result.
func Harness_Selftest() {
	Debug = zz.Param("debug", 0) == 1
	names := Names()
	f := Cases[names[zz.Param("case", 0)]]
	x := zz.NondetI64("x")
	y := zz.NondetI64("y")
	zz.Assume(x == int64(zz.Param("xlo", 0))|int64(zz.Param("xhi", 0))<<32)
	zz.Assume(y == int64(zz.Param("ylo", 0))|int64(zz.Param("yhi", 0))<<32)
	want := int64(zz.Param("wlo", 0)) | int64(zz.Param("whi", 0))<<32
	got := f(x, y)
	zz.Assert(got == want, "selftest/result")
	zz.Reach("end")
}
