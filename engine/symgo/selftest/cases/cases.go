// Package cases holds small functions that the self-test runs both natively and in the
// symbolic interpreter (with the inputs as solver variables pinned to concrete values),
// comparing results: a differential test of instruction semantics and term encoding.
package cases

import (
	"bufio"
	"bytes"
	"encoding/json"
	"io"
	"sort"
	"strconv"
	"strings"
)

type pair struct{ a, b int64 }

type shape interface{ area() int64 }
type rect struct{ w, h int64 }
type sq struct{ s int64 }

func (r rect) area() int64 { return r.w * r.h }
func (s *sq) area() int64  { return s.s * s.s }

type jinner struct {
	A int64  `json:"a"`
	B string `json:"b,omitempty"`
	c int
}

type jcustom struct{ n int64 }

func (c jcustom) MarshalJSON() ([]byte, error) {
	return []byte(`"c` + strconv.FormatInt(c.n, 10) + `"`), nil
}
func (c *jcustom) UnmarshalJSON(b []byte) error {
	n, err := strconv.ParseInt(string(b[2:len(b)-1]), 10, 64)
	c.n = n
	return err
}

type jouter struct {
	Name   string                      `json:"name"`
	N      int64                       `json:"n,omitempty"`
	P      *jinner                     `json:"p,omitempty"`
	L      []jinner                    `json:"l"`
	M      map[string]int64            `json:"m,omitempty"`
	Raw    map[string]*json.RawMessage `json:"raw,omitempty"`
	C      jcustom                     `json:"c"`
	Skip   int                         `json:"-"`
	Any    interface{}                 `json:"any,omitempty"`
	Quoted int64                       `json:"quoted,string"`
	jinner
}

func hashStr(s string) int64 {
	h := int64(1469598103934665603)
	for i := 0; i < len(s); i++ {
		h = (h ^ int64(s[i])) * 1099511628211
	}
	return h
}

// Debug makes some cases print intermediate values.
var Debug = false

// Cases maps a name to func(x, y int64) int64.
var Cases = map[string]func(x, y int64) int64{
	"add": func(x, y int64) int64 { return x + y },
	"sub": func(x, y int64) int64 { return x - y },
	"mul": func(x, y int64) int64 { return x * y },
	"div": func(x, y int64) int64 {
		if y == 0 {
			return -7
		}
		return x / y
	},
	"rem": func(x, y int64) int64 {
		if y == 0 {
			return -7
		}
		return x % y
	},
	"udiv": func(x, y int64) int64 {
		if y == 0 {
			return -7
		}
		return int64(uint64(x) / uint64(y))
	},
	"urem": func(x, y int64) int64 {
		if y == 0 {
			return -7
		}
		return int64(uint64(x) % uint64(y))
	},
	"and":    func(x, y int64) int64 { return x & y },
	"or":     func(x, y int64) int64 { return x | y },
	"xor":    func(x, y int64) int64 { return x ^ y },
	"andnot": func(x, y int64) int64 { return x &^ y },
	"neg":    func(x, y int64) int64 { return -x + ^y },
	"shl":    func(x, y int64) int64 { return x << (uint64(y) & 127) },
	"shr":    func(x, y int64) int64 { return x >> (uint64(y) & 127) },
	"ushr":   func(x, y int64) int64 { return int64(uint64(x) >> (uint64(y) & 127)) },
	"shl8":   func(x, y int64) int64 { return int64(uint8(x) << (uint8(y) & 15)) },
	"sar32":  func(x, y int64) int64 { return int64(int32(x) >> (uint32(y) & 63)) },
	"cmp": func(x, y int64) int64 {
		r := int64(0)
		if x < y {
			r |= 1
		}
		if x <= y {
			r |= 2
		}
		if uint64(x) < uint64(y) {
			r |= 4
		}
		if uint64(x) >= uint64(y) {
			r |= 8
		}
		if x == y {
			r |= 16
		}
		if int8(x) > int8(y) {
			r |= 32
		}
		if uint16(x) > uint16(y) {
			r |= 64
		}
		return r
	},
	"conv": func(x, y int64) int64 {
		return int64(int8(x)) + int64(uint8(y)) + int64(int16(x))*3 + int64(uint32(y)) + int64(int32(x)) + int64(uint16(x))
	},
	"wrap32": func(x, y int64) int64 { a := int32(x); b := int32(y); return int64(a*b + a - b) },
	"wrapu8": func(x, y int64) int64 {
		a := uint8(x)
		b := uint8(y)
		return int64(a*b+a-b) + int64(a/(b|1)) + int64(a%(b|1))
	},
	"minmax": func(x, y int64) int64 { return min(x, y)*3 + max(x, y) },
	"loop": func(x, y int64) int64 {
		n := int(uint8(x) % 9)
		s := y
		for i := 0; i < n; i++ {
			s = s*3 + int64(i)
		}
		return s
	},
	"slice": func(x, y int64) int64 {
		a := []int64{1, 2, 3, 4, 5, 6}
		b := a[1:4]
		b = append(b, x)
		b = append(b, y, 9)
		a[2] = 40
		return a[4] + b[1] + int64(len(b)) + int64(cap(a[2:5:6]))
	},
	"array": func(x, y int64) int64 {
		var t [16]int64
		for i := range t {
			t[i] = int64(i * i)
		}
		u := t
		u[3] = x
		return t[uint8(x)&15] + u[uint8(y)&15] + t[3]
	},
	"symidxstore": func(x, y int64) int64 {
		var t [8]int64
		t[uint8(x)&7] = y
		t[uint8(y)&7] += 5
		s := int64(0)
		for i, v := range t {
			s += v * int64(i+1)
		}
		return s
	},
	"struct": func(x, y int64) int64 {
		p := pair{x, y}
		q := p
		q.a++
		pp := &p
		pp.b *= 2
		return p.a + p.b*3 + q.a*5 + q.b*7
	},
	"map": func(x, y int64) int64 {
		m := map[int64]int64{1: 10, 2: 20}
		m[x&3] += 5
		m[y&3] += 7
		delete(m, 2)
		v, ok := m[2]
		r := v
		if ok {
			r += 1000
		}
		s := int64(len(m))
		for k, v := range m {
			s += k*100 + v
		}
		return r + s
	},
	"mapstr": func(x, y int64) int64 {
		m := map[string]int64{}
		m[strconv.Itoa(int(x&7))] = x
		m[strconv.Itoa(int(y&7))] = y
		return int64(len(m))*1000 + m["3"] + m["5"]
	},
	"closure": func(x, y int64) int64 {
		acc := x
		add := func(d int64) { acc += d }
		add(y)
		add(y)
		f := func() func() int64 { z := acc; return func() int64 { z++; return z } }()
		f()
		return f() + acc
	},
	"iface": func(x, y int64) int64 {
		var s shape = rect{x, y}
		t := s.area()
		s = &sq{y}
		if q, ok := s.(*sq); ok {
			t += q.s
		}
		if _, ok := s.(rect); ok {
			t += 1 << 40
		}
		switch v := s.(type) {
		case rect:
			t += v.w
		case *sq:
			t += v.s * 2
		}
		return t + s.area()
	},
	"defer": func(x, y int64) (r int64) {
		defer func() {
			if e := recover(); e != nil {
				r = -99 + x
			}
		}()
		defer func() { r += 1 }()
		a := []int64{1, 2}
		return a[uint8(x)&3] + y
	},
	"strings": func(x, y int64) int64 {
		s := "ab" + string(rune('a'+uint8(x)%26)) + "-" + strconv.FormatInt(y%1000, 10)
		i := strings.IndexByte(s, '-')
		t := strings.ToUpper(s[:i]) + strings.Repeat("z", int(uint8(y)%4))
		f := strings.Split(s, "-")
		r := int64(len(t))*100 + int64(len(f))
		if strings.HasPrefix(s, "abc") {
			r += 7
		}
		if strings.Contains(s, "b"+string(s[2])) {
			r += 11
		}
		if t < "ABM" {
			r += 13
		}
		n, err := strconv.Atoi(f[len(f)-1])
		if err == nil {
			r += int64(n)
		}
		for _, c := range t {
			r += int64(c)
		}
		return r
	},
	"bytesum": func(x, y int64) int64 {
		b := []byte("hello")
		b[uint8(x)%5] = byte(y)
		s := string(b)
		r := int64(0)
		for i := 0; i < len(s); i++ {
			r = r*31 + int64(s[i])
		}
		if s == "hello" {
			r++
		}
		if s > "hellp" {
			r += 2
		}
		return r
	},
	"sort": func(x, y int64) int64 {
		a := []int64{5, x % 10, 3, y % 10, 8, 1}
		sort.Slice(a, func(i, j int) bool { return a[i] < a[j] })
		r := int64(0)
		for _, v := range a {
			r = r*11 + v
		}
		b := []string{"q", strconv.Itoa(int(x & 7)), "a"}
		sort.Strings(b)
		return r + int64(b[0][0])
	},
	"switch": func(x, y int64) int64 {
		switch {
		case x > 10 && y > 10:
			return 1
		case x > 10 || y < -5:
			return 2
		case x == y:
			return 3
		}
		switch uint8(x) & 3 {
		case 0:
			return 10
		case 1, 2:
			return 20
		}
		return 30
	},
	"itoa": func(x, y int64) int64 {
		s := strconv.FormatInt(x, 10)
		n, _ := strconv.ParseInt(s, 10, 64)
		u := strconv.FormatUint(uint64(y), 16)
		m, _ := strconv.ParseUint(u, 16, 64)
		return n ^ int64(m)
	},
	"json": func(x, y int64) int64 {
		// (1) fully concrete document: the text must be byte-identical to encoding/json's
		raw := json.RawMessage(`{"k":[1,2,"<x>"]}`)
		c := jouter{Name: "n<&>\u00e9\"q", N: 5, L: []jinner{{A: 17, B: "b"}, {A: 2}},
			M: map[string]int64{"z": 1, "a": 50}, Raw: map[string]*json.RawMessage{"r": &raw}, C: jcustom{4321},
			Skip: 9, Any: map[string]interface{}{"q": []interface{}{true, nil, "s", 1.5}}, Quoted: 998, jinner: jinner{A: 7, B: "emb"}}
		c.P = &jinner{A: 33}
		cb, err := json.Marshal(c)
		if err != nil {
			return -1
		}
		var cback jouter
		if err := json.Unmarshal(cb, &cback); err != nil {
			return -2
		}
		cb2, _ := json.Marshal(cback)
		var g map[string]interface{}
		if err := json.Unmarshal(cb, &g); err != nil {
			return -3
		}
		gb, _ := json.Marshal(g)
		if Debug {
			println("CB ", string(cb))
			println("CB2", string(cb2))
			println("GB ", string(gb))
		}
		r := hashStr(string(cb)) ^ hashStr(string(cb2))*3 ^ hashStr(string(gb))*5 ^ int64(len(g))
		// (2) data depending on the inputs: values must survive the round trip
		o := jouter{Name: "n" + strconv.FormatInt(x%100, 10), N: y % 7, L: []jinner{{A: x % 1000}}, M: map[string]int64{"a": y % 50},
			C: jcustom{x % 10000}, Quoted: y % 999, jinner: jinner{A: x % 13}}
		if x%2 == 0 {
			o.P = &jinner{A: y % 33}
		}
		b, err := json.Marshal(o)
		if err != nil {
			return -4
		}
		var back jouter
		if err := json.Unmarshal(b, &back); err != nil {
			return -5
		}
		if back.P != nil {
			r += back.P.A
		}
		r += back.C.n + back.Quoted*5 + back.M["a"] + back.jinner.A + back.L[0].A*3 + back.N + int64(len(back.Name))
		var bad jouter
		if json.Unmarshal([]byte(`{"n":"notanumber"}`), &bad) == nil {
			r += 1 << 50
		}
		if json.Unmarshal([]byte(`{"NAME":"ci","l":[{"a":1}],"unknown":3}`), &bad) != nil || bad.Name != "ci" || len(bad.L) != 1 {
			r += 1 << 51
		}
		return r
	},
	"bufio": func(x, y int64) int64 {
		data := []byte("type: t\nk: xxxxxxxx\n\nSI\n\ntype: t\nk: \nbody-length: 1\n\nB\n\nSI\n")
		var rd io.Reader = bytes.NewReader(data)
		b := bufio.NewReaderSize(rd, 16)
		r := int64(0)
		size := 16
		for round := 0; round < 6; round++ {
			buf, err := b.Peek(size)
			if err == bufio.ErrBufferFull {
				rebuf, _ := b.Peek(b.Buffered())
				mr := io.MultiReader(bytes.NewBuffer(rebuf), rd)
				b = bufio.NewReaderSize(mr, (size/16+1)*16)
				buf, err = b.Peek(size)
			}
			i := bytes.Index(buf, []byte("\n\n"))
			if Debug {
				println("round", round, "size", size, "len", len(buf), "idx", i, "err", err != nil, "buffered", b.Buffered(), string(buf))
			}
			r = r*31 + int64(len(buf))*7 + int64(i)
			if i >= 0 {
				b.Discard(i + 2)
				size = 16
			} else {
				size *= 2
			}
		}
		return r + x - x + y - y
	},
	"variadic": func(x, y int64) int64 {
		sum := func(v ...int64) (s int64) {
			for _, e := range v {
				s += e
			}
			return
		}
		return sum() + sum(x) + sum(x, y, 3)
	},
	"goto": func(x, y int64) int64 {
		i := int64(0)
		r := int64(0)
	loop:
		if i < int64(uint8(x)&7) {
			r += y
			i++
			goto loop
		}
		return r
	},
}

// Inputs are the concrete input vectors used by the self-test.
var Inputs = [][2]int64{
	{0, 0}, {1, 2}, {-1, 1}, {7, -3}, {-7, 3}, {1 << 62, 4}, {-1 << 63, -1}, {255, 256}, {65535, -65536},
	{123456789, 987654321}, {-128, 127}, {13, 5}, {5, 13}, {3, 3}, {1<<31 - 1, 1 << 31}, {0x7fffffffffffffff, 2}, {42, 64}, {9, 63},
}

// Names returns the case names in sorted order.
func Names() []string {
	var n []string
	for k := range Cases {
		n = append(n, k)
	}
	sort.Strings(n)
	return n
}
