// Package zzverif is the harness API of the /verif symbolic checker.
//
// Under the symbolic engine (symgo) every function here is intercepted: Nondet*
// return fresh symbolic values, Assume/Assert talk to the SMT solver.  Compiled
// natively (counterexample replay with `go test -overlay`), Nondet* read the
// solver's assignment from the JSON file named by $VERIF_REPLAY and Assert
// records failures that the replay test reports.
package zzverif

import (
	"encoding/json"
	"fmt"
	"os"
)

var (
	replay   map[string]uint64
	loaded   bool
	seq      = map[string]int{}
	Failures []string
	Reached  []string
	pruned   bool
	params   map[string]int
)

type prunedPath struct{}

func load() {
	if loaded {
		return
	}
	loaded = true
	replay = map[string]uint64{}
	p := os.Getenv("VERIF_REPLAY")
	if p == "" {
		return
	}
	data, err := os.ReadFile(p)
	if err != nil {
		panic(err)
	}
	var doc struct {
		Values map[string]uint64 `json:"values"`
		Params map[string]int    `json:"params"`
	}
	if err := json.Unmarshal(data, &doc); err != nil {
		panic(err)
	}
	replay = doc.Values
	params = doc.Params
}

// Reset clears per-run state (native replay only).
func Reset() {
	seq = map[string]int{}
	Failures = nil
	Reached = nil
	pruned = false
}

func val(name string) uint64 {
	load()
	n := seq[name]
	seq[name] = n + 1
	if n > 0 {
		name = fmt.Sprintf("%s#%d", name, n)
	}
	return replay[name]
}

func NondetBool(name string) bool  { return val(name) != 0 }
func NondetByte(name string) byte  { return byte(val(name)) }
func NondetU16(name string) uint16 { return uint16(val(name)) }
func NondetU32(name string) uint32 { return uint32(val(name)) }
func NondetU64(name string) uint64 { return val(name) }
func NondetI32(name string) int32  { return int32(val(name)) }
func NondetI64(name string) int64  { return int64(val(name)) }
func NondetInt(name string) int    { return int(val(name)) }
func NondetUint(name string) uint  { return uint(val(name)) }

// NondetRange returns an int in [lo,hi]; the engine forks one path per value.
func NondetRange(name string, lo, hi int) int {
	v := int(int64(val(name)))
	if v < lo || v > hi {
		panic(prunedPath{})
	}
	return v
}

// NondetBytes returns n arbitrary bytes.
func NondetBytes(name string, n int) []byte {
	b := make([]byte, n)
	for i := range b {
		b[i] = byte(val(fmt.Sprintf("%s[%d]", name, i)))
	}
	return b
}

// NondetString returns a string of n arbitrary bytes.
func NondetString(name string, n int) string { return string(NondetBytes(name, n)) }

// Param returns a named bound (from the tier configuration; def when unset).
func Param(name string, def int) int {
	load()
	if v, ok := params[name]; ok {
		return v
	}
	return def
}

// And, Or, Not, Implies and Ite* are branch-free: under the engine they build one term
// instead of forking the path the way Go's short-circuit operators do.
func And(a, b bool) bool     { return a && b }
func Or(a, b bool) bool      { return a || b }
func Not(a bool) bool        { return !a }
func Implies(a, b bool) bool { return !a || b }
func IteInt(c bool, a, b int) int {
	if c {
		return a
	}
	return b
}
func IteByte(c bool, a, b byte) byte {
	if c {
		return a
	}
	return b
}
func IteU64(c bool, a, b uint64) uint64 {
	if c {
		return a
	}
	return b
}

// StrEq compares two strings without forking.
func StrEq(a, b string) bool { return a == b }

// Counter reads an engine counter (e.g. "cond.signals": sync.Cond Broadcast/Signal calls so far); natively 0.
func Counter(name string) int { return 0 }

// Assume restricts the inputs considered; a false assumption ends the path.
func Assume(c bool) {
	if !c {
		pruned = true
		panic(prunedPath{})
	}
}

// Assert states the property; the engine asks the solver for inputs falsifying c.
func Assert(c bool, label string) {
	if !c {
		Failures = append(Failures, label)
	}
}

// Reach is a reachability witness: the engine requires it to be hit on some feasible path.
func Reach(label string) { Reached = append(Reached, label) }

// Stub replaces the function with the given full name (engine only).
func Stub(target string, repl interface{}) {
	panic("zzverif.Stub is only available under the symbolic engine")
}

// RunGoroutines runs every goroutine queued by `go` statements to completion, oldest first (engine only; natively a no-op).
func RunGoroutines() int { return 0 }

// RunGoroutine runs the i-th (0-based) not yet run goroutine queued by a `go` statement to completion
// (engine only; natively goroutines run by themselves).
func RunGoroutine(i int) {}

// NoFork runs f in a region where any symbolic branch is an engine error (used to prove a callee is branch-free).
func NoFork(f func()) { f() }

// RunNative runs a harness natively and reports the failed assertion labels.
func RunNative(h func()) (failed []string, wasPruned bool, panicked interface{}) {
	Reset()
	defer func() {
		if r := recover(); r != nil {
			if _, ok := r.(prunedPath); ok {
				wasPruned = true
			} else {
				panicked = r
			}
		}
		failed = Failures
	}()
	h()
	return
}
