package smt

import "testing"

func TestPortfolio(t *testing.T) {
	c := NewCtx()
	s, err := NewSolver(c, Options{})
	if err != nil {
		t.Fatal(err)
	}
	defer s.Close()
	x := c.Var("x", 64)
	y := c.Var("y", 8)
	s.Push()
	s.Assert(c.Bin(OBvUlt, x, c.BV(10, 64)))
	r, m := s.Check(c.Eq(c.Bin(OBvAdd, x, c.Zext(y, 64)), c.BV(300, 64)), true, []*Term{x, y})
	if r != Unsat {
		t.Fatalf("want unsat got %v %v", r, m)
	}
	r, m = s.Check(c.Eq(c.Bin(OBvAdd, x, c.Zext(y, 64)), c.BV(260, 64)), true, []*Term{x, y})
	if r != Sat || m["x"]+m["y"] != 260 {
		t.Fatalf("want sat got %v %v", r, m)
	}
	s.Pop()
	// div/mod kernel that needs cvc5
	s.Push()
	q := c.Bin(OBvUDiv, x, c.BV(10, 64))
	rem := c.Bin(OBvURem, x, c.BV(10, 64))
	back := c.Bin(OBvAdd, c.Bin(OBvMul, q, c.BV(10, 64)), rem)
	r, _ = s.Check(c.Ne(back, x), false, nil)
	if r != Unsat {
		t.Fatalf("divmod: want unsat got %v", r)
	}
	s.Pop()
	t.Logf("stats %+v", s.Stats)
}
