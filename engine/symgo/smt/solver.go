package smt

import (
	"bufio"
	"fmt"
	"io"
	"os"
	"os/exec"
	"strconv"
	"strings"
	"time"
)

type Result int

const (
	Unknown Result = iota
	Sat
	Unsat
)

func (r Result) String() string { return [...]string{"unknown", "sat", "unsat"}[r] }

type pframe struct {
	serial int
	sent   int
}

// proc is one long-lived solver process driven over a pipe.
type proc struct {
	name      string
	cmd       *exec.Cmd
	in        io.WriteCloser
	out       *bufio.Reader
	em        *Emitter
	frames    []pframe // frames this process has been told about
	dead      bool
	log       io.Writer
	setTO     func(ms int) string
	curTO     int
	tactic    string
	lazy      func() (*proc, error)
	oneshot   bool
	hardLimit time.Duration
	respawn   func() (*proc, error)
}

const doneMarker = "<<verif-done>>"

func startProc(name string, argv []string, prelude string, log io.Writer) (*proc, error) {
	cmd := exec.Command(argv[0], argv[1:]...)
	in, err := cmd.StdinPipe()
	if err != nil {
		return nil, err
	}
	out, err := cmd.StdoutPipe()
	if err != nil {
		return nil, err
	}
	cmd.Stderr = cmd.Stdout
	if err := cmd.Start(); err != nil {
		return nil, err
	}
	p := &proc{name: name, cmd: cmd, in: in, out: bufio.NewReaderSize(out, 1<<16), em: NewEmitter(), log: log}
	p.frames = []pframe{{0, 0}}
	if _, err := p.roundtrip(prelude); err != nil {
		return nil, err
	}
	return p, nil
}

// roundtrip sends text followed by an echo marker and returns all output lines before the marker.
// A watchdog kills the process if it does not answer within p.hardLimit (solvers do not always
// honour their own time limits while bit-blasting).
func (p *proc) roundtrip(text string) ([]string, error) {
	if p.dead {
		return nil, fmt.Errorf("%s: dead", p.name)
	}
	if p.log != nil {
		io.WriteString(p.log, text)
	}
	type result struct {
		lines []string
		err   error
	}
	done := make(chan result, 1)
	go func() {
		if _, err := io.WriteString(p.in, text+"(echo \""+doneMarker+"\")\n"); err != nil {
			done <- result{nil, err}
			return
		}
		var lines []string
		for {
			line, err := p.out.ReadString('\n')
			if err != nil {
				done <- result{lines, fmt.Errorf("%s: %v (output so far: %q)", p.name, err, lines)}
				return
			}
			line = strings.TrimRight(line, "\r\n")
			if strings.Contains(line, doneMarker) {
				done <- result{lines, nil}
				return
			}
			if line != "" {
				lines = append(lines, line)
			}
		}
	}()
	limit := p.hardLimit
	if limit == 0 {
		limit = 10 * time.Minute
	}
	select {
	case r := <-done:
		if r.err != nil {
			p.dead = true
		}
		return r.lines, r.err
	case <-time.After(limit):
		p.dead = true
		p.cmd.Process.Kill()
		<-done
		p.cmd.Wait()
		return nil, fmt.Errorf("%s: no answer within %v, process killed", p.name, limit)
	}
}

func (p *proc) close() {
	if p.lazy != nil || p.oneshot {
		return
	}
	if p.cmd != nil && p.cmd.Process != nil {
		p.in.Close()
		p.cmd.Process.Kill()
		p.cmd.Wait()
	}
}

// Stats accumulated per Solver.
type Stats struct {
	Queries   int
	Sat       int
	Unsat     int
	Unknown   int
	Errors    int
	BySolver  map[string]int
	SolverSec float64
	Respawns  int
}

type frame struct {
	serial int
	terms  []*Term
}

// Solver is an incremental portfolio over one logical assertion stack.  Each
// process is synchronised lazily, so the secondary only sees text when the
// primary could not decide a query within the short timeout.
type Solver struct {
	ctx     *Ctx
	procs   []*proc
	Stats   Stats
	ShortMs int
	LongMs  int
	stack   []frame
	serial  int
	// SaveQuery, when set, receives a standalone SMT-LIB script for each Check.
	SaveQuery func(script string, res Result)
}

type Options struct {
	ShortMs   int
	LongMs    int
	PreferCVC bool
	Z3Only    bool
	OldZ3     bool
	LogPath   string
}

func NewSolver(ctx *Ctx, opt Options) (*Solver, error) {
	if opt.ShortMs == 0 {
		opt.ShortMs = 2000
	}
	if opt.LongMs == 0 {
		opt.LongMs = 60000
	}
	s := &Solver{ctx: ctx, ShortMs: opt.ShortMs, LongMs: opt.LongMs}
	s.Stats.BySolver = map[string]int{}
	var log io.Writer
	if opt.LogPath != "" {
		f, err := os.Create(opt.LogPath)
		if err == nil {
			log = f
		}
	}
	z3bin := "z3-new"
	if opt.OldZ3 {
		z3bin = "z3"
	}
	if _, err := exec.LookPath(z3bin); err != nil {
		z3bin = "z3"
	}
	z3, err := startProc(z3bin, []string{z3bin, "-in"}, "(set-option :global-declarations true)\n(set-option :produce-models true)\n", log)
	if err != nil {
		return nil, fmt.Errorf("starting z3: %v", err)
	}
	z3.setTO = func(ms int) string { return fmt.Sprintf("(set-option :timeout %d)\n", ms) }
	z3.respawn = func() (*proc, error) {
		return startProc(z3bin, []string{z3bin, "-in"}, "(set-option :global-declarations true)\n(set-option :produce-models true)\n", log)
	}
	if z3bin == "z3-new" {
		// the incremental core is ~20x slower than bit-blasting on byte/table kernels (measured)
		z3.tactic = "(then simplify propagate-values solve-eqs simplify bit-blast sat)"
	}
	s.procs = []*proc{z3}
	if !opt.Z3Only {
		// cvc5 runs one process per query on a standalone script (its define-funs do not
		// survive pop even with --global-declarations); it is only a fallback.
		cv := &proc{name: "cvc5", oneshot: true}
		cv.setTO = func(ms int) string { return fmt.Sprintf("(set-option :tlimit-per %d)\n", ms) }
		if opt.PreferCVC {
			s.procs = []*proc{cv, z3}
		} else {
			s.procs = append(s.procs, cv)
		}
	}
	s.stack = []frame{{serial: 0}}
	return s, nil
}

func (s *Solver) Close() {
	for _, p := range s.procs {
		p.close()
	}
}

func (s *Solver) Push() {
	s.serial++
	s.stack = append(s.stack, frame{serial: s.serial})
}

func (s *Solver) Pop() {
	if len(s.stack) <= 1 {
		panic("smt: Pop of base frame")
	}
	s.stack = s.stack[:len(s.stack)-1]
}

// PopTo pops frames until depth frames remain.
func (s *Solver) PopTo(depth int) {
	for len(s.stack) > depth {
		s.Pop()
	}
}

func (s *Solver) Depth() int { return len(s.stack) }

func (s *Solver) Assert(t *Term) {
	if t.W != 0 {
		panic("smt: Assert non-bool")
	}
	if t.IsTrue() {
		return
	}
	for _, f := range s.stack {
		for _, o := range f.terms {
			if o == t {
				return
			}
		}
	}
	top := len(s.stack) - 1
	s.stack[top].terms = append(s.stack[top].terms, t)
}

// Assertions returns all currently asserted terms.
func (s *Solver) Assertions() []*Term {
	var out []*Term
	for _, f := range s.stack {
		out = append(out, f.terms...)
	}
	return out
}

// sync brings p's assertion stack in line with the logical stack; returns the text to send.
func (s *Solver) sync(p *proc) string {
	var sb strings.Builder
	common := 0
	for common < len(p.frames) && common < len(s.stack) && p.frames[common].serial == s.stack[common].serial {
		common++
	}
	if n := len(p.frames) - common; n > 0 {
		fmt.Fprintf(&sb, "(pop %d)\n", n)
		p.frames = p.frames[:common]
	}
	for i := 0; i < len(s.stack); i++ {
		if i >= len(p.frames) {
			sb.WriteString("(push 1)\n")
			p.frames = append(p.frames, pframe{serial: s.stack[i].serial})
		}
		f := &s.stack[i]
		for p.frames[i].sent < len(f.terms) {
			t := f.terms[p.frames[i].sent]
			r := p.em.Define(t, &sb)
			fmt.Fprintf(&sb, "(assert %s)\n", r)
			p.frames[i].sent++
		}
	}
	return sb.String()
}

// Check decides satisfiability of the current assertions plus extra.  When the
// result is Sat and wantModel is set, the model assigns every variable in vars.
func (s *Solver) Check(extra *Term, wantModel bool, vars []*Term) (Result, map[string]uint64) {
	s.Stats.Queries++
	if extra != nil && extra.IsFalse() {
		s.Stats.Unsat++
		return Unsat, nil
	}
	t0 := time.Now()
	defer func() { s.Stats.SolverSec += time.Since(t0).Seconds() }()
	type attempt struct {
		p      *proc
		ms     int
		tactic bool
	}
	var plan []attempt
	for _, p := range s.procs {
		plan = append(plan, attempt{p, s.ShortMs, true})
	}
	for _, p := range s.procs {
		plan = append(plan, attempt{p, s.LongMs, false})
	}
	sawError := false
	for _, a := range plan {
		p := a.p
		if p.oneshot {
			res, model := s.oneShotCVC5(extra, wantModel, vars, a.ms)
			if res != Unknown {
				s.Stats.BySolver[p.name]++
				if res == Sat {
					s.Stats.Sat++
				} else {
					s.Stats.Unsat++
				}
				return res, model
			}
			continue
		}
		if p.lazy != nil {
			np, err := p.lazy()
			p.lazy = nil
			if err != nil {
				fmt.Fprintf(os.Stderr, "warning: %s not started: %v\n", p.name, err)
				p.dead = true
			} else {
				np.setTO, np.name = p.setTO, p.name
				*p = *np
			}
		}
		if p.dead && p.respawn != nil {
			np, err := p.respawn()
			if err == nil {
				np.respawn, np.setTO, np.tactic, np.name = p.respawn, p.setTO, p.tactic, p.name
				*p = *np
				s.Stats.Respawns++
			}
		}
		if p.dead {
			continue
		}
		p.hardLimit = time.Duration(a.ms)*time.Millisecond*2 + 5*time.Second
		var sb strings.Builder
		sb.WriteString(s.sync(p))
		if p.curTO != a.ms {
			sb.WriteString(p.setTO(a.ms))
			p.curTO = a.ms
		}
		sb.WriteString("(push 1)\n")
		if extra != nil {
			r := p.em.Define(extra, &sb)
			fmt.Fprintf(&sb, "(assert %s)\n", r)
		}
		if a.tactic && p.tactic != "" {
			fmt.Fprintf(&sb, "(check-sat-using (try-for %s %d))\n", p.tactic, a.ms)
		} else {
			sb.WriteString("(check-sat)\n")
		}
		tq := time.Now()
		if os.Getenv("SYMGO_SLOW") == "2" {
			os.WriteFile("/tmp/current_query.smt2", []byte(s.Script(extra)), 0644)
		}
		lines, err := p.roundtrip(sb.String())
		if d := time.Since(tq); d > 1500*time.Millisecond && os.Getenv("SYMGO_SLOW") != "" {
			fmt.Fprintf(os.Stderr, "slow query %.1fs on %s (tactic=%v, limit %dms): %v\n", d.Seconds(), p.name, a.tactic, a.ms, lines)
			os.WriteFile(fmt.Sprintf("/tmp/slow_%d.smt2", s.Stats.Queries), []byte(s.Script(extra)), 0644)
		}
		res := Unknown
		bad := err != nil
		for _, l := range lines {
			switch {
			case l == "sat":
				res = Sat
			case l == "unsat":
				res = Unsat
			case strings.HasPrefix(l, "(error"):
				bad = true
				fmt.Fprintf(os.Stderr, "solver %s: %s\n", p.name, l)
			}
		}
		if bad {
			res = Unknown
			sawError = true
		}
		var model map[string]uint64
		if res == Sat && wantModel {
			model, err = s.getModel(p, vars)
			if err != nil {
				fmt.Fprintf(os.Stderr, "solver %s: get-value: %v\n", p.name, err)
				res = Unknown
			}
		}
		if !p.dead {
			p.roundtrip("(pop 1)\n")
		}
		if res != Unknown {
			s.Stats.BySolver[p.name]++
			if res == Sat {
				s.Stats.Sat++
			} else {
				s.Stats.Unsat++
			}
			if s.SaveQuery != nil {
				s.SaveQuery(s.Script(extra), res)
			}
			return res, model
		}
	}
	if sawError {
		s.Stats.Errors++
	}
	s.Stats.Unknown++
	if s.SaveQuery != nil {
		s.SaveQuery(s.Script(extra), Unknown)
	}
	return Unknown, nil
}

func (s *Solver) getModel(p *proc, vars []*Term) (map[string]uint64, error) {
	model := map[string]uint64{}
	if len(vars) == 0 {
		return model, nil
	}
	// only ask for variables the process knows
	var names []string
	for _, v := range vars {
		if p.em.defined[v.ID] {
			names = append(names, SymName(v.Name))
		}
	}
	for i := 0; i < len(names); i += 200 {
		j := i + 200
		if j > len(names) {
			j = len(names)
		}
		lines, err := p.roundtrip("(get-value (" + strings.Join(names[i:j], " ") + "))\n")
		if err != nil {
			return nil, err
		}
		text := strings.Join(lines, " ")
		if strings.Contains(text, "(error") {
			return nil, fmt.Errorf("%s", text)
		}
		if err := parseModel(text, model); err != nil {
			return nil, err
		}
	}
	return model, nil
}

// parseModel parses "((|a| #x01) (|b| true) ...)".
func parseModel(text string, model map[string]uint64) error {
	i := 0
	n := len(text)
	skip := func() {
		for i < n && (text[i] == ' ' || text[i] == '\n' || text[i] == '\t') {
			i++
		}
	}
	skip()
	if i >= n || text[i] != '(' {
		return fmt.Errorf("model: expected '(' in %q", text)
	}
	i++
	for {
		skip()
		if i >= n {
			return fmt.Errorf("model: unexpected end")
		}
		if text[i] == ')' {
			return nil
		}
		if text[i] != '(' {
			return fmt.Errorf("model: expected pair at %d in %q", i, text)
		}
		i++
		skip()
		var name string
		if text[i] == '|' {
			j := strings.IndexByte(text[i+1:], '|')
			name = text[i+1 : i+1+j]
			i += j + 2
		} else {
			j := i
			for j < n && text[j] != ' ' {
				j++
			}
			name = text[i:j]
			i = j
		}
		skip()
		// value: token or parenthesised (e.g. (_ bv5 8))
		var val string
		if text[i] == '(' {
			d := 0
			j := i
			for ; j < n; j++ {
				if text[j] == '(' {
					d++
				} else if text[j] == ')' {
					d--
					if d == 0 {
						j++
						break
					}
				}
			}
			val = text[i:j]
			i = j
		} else {
			j := i
			for j < n && text[j] != ')' && text[j] != ' ' {
				j++
			}
			val = text[i:j]
			i = j
		}
		skip()
		if i < n && text[i] == ')' {
			i++
		}
		var v uint64
		switch {
		case val == "true":
			v = 1
		case val == "false":
			v = 0
		case strings.HasPrefix(val, "#x"):
			x, err := strconv.ParseUint(val[2:], 16, 64)
			if err != nil {
				return err
			}
			v = x
		case strings.HasPrefix(val, "#b"):
			x, err := strconv.ParseUint(val[2:], 2, 64)
			if err != nil {
				return err
			}
			v = x
		case strings.HasPrefix(val, "(_ bv"):
			f := strings.Fields(val[5:])
			x, err := strconv.ParseUint(f[0], 10, 64)
			if err != nil {
				return err
			}
			v = x
		default:
			return fmt.Errorf("model: cannot parse value %q for %s", val, name)
		}
		model[name] = v
	}
}

// Script renders the current assertions plus extra as a standalone SMT-LIB2 script.
func (s *Solver) Script(extra *Term) string {
	var sb strings.Builder
	em := NewEmitter()
	sb.WriteString("(set-logic ALL)\n")
	for _, f := range s.stack {
		for _, t := range f.terms {
			r := em.Define(t, &sb)
			fmt.Fprintf(&sb, "(assert %s)\n", r)
		}
	}
	if extra != nil {
		r := em.Define(extra, &sb)
		fmt.Fprintf(&sb, "(assert %s)\n", r)
	}
	sb.WriteString("(check-sat)\n")
	return sb.String()
}

func (s *Solver) oneShotCVC5(extra *Term, wantModel bool, vars []*Term, ms int) (Result, map[string]uint64) {
	script := s.Script(extra)
	script = strings.Replace(script, "(set-logic ALL)\n", "(set-logic ALL)\n(set-option :produce-models true)\n", 1)
	var names []string
	if wantModel {
		seen := map[int]bool{}
		var used []*Term
		for _, f := range s.stack {
			for _, t := range f.terms {
				CollectVars(t, seen, &used)
			}
		}
		if extra != nil {
			CollectVars(extra, seen, &used)
		}
		usedSet := map[string]bool{}
		for _, v := range used {
			usedSet[v.Name] = true
		}
		for _, v := range vars {
			if usedSet[v.Name] {
				names = append(names, SymName(v.Name))
			}
		}
		if len(names) > 0 {
			script += "(get-value (" + strings.Join(names, " ") + "))\n"
		}
	}
	cmd := exec.Command("cvc5", "--lang=smt2", "--solve-bv-as-int=sum", fmt.Sprintf("--tlimit=%d", ms))
	cmd.Stdin = strings.NewReader(script)
	out, _ := cmd.CombinedOutput()
	text := string(out)
	lines := strings.SplitN(text, "\n", 2)
	if strings.TrimSpace(lines[0]) == "unsat" {
		return Unsat, nil
	}
	if strings.Contains(text, "(error") {
		fmt.Fprintf(os.Stderr, "solver cvc5: %s\n", firstN(strings.TrimSpace(text), 300))
		return Unknown, nil
	}
	switch strings.TrimSpace(lines[0]) {
	case "unsat":
		return Unsat, nil
	case "sat":
		model := map[string]uint64{}
		if wantModel && len(names) > 0 && len(lines) > 1 {
			if err := parseModel(strings.ReplaceAll(lines[1], "\n", " "), model); err != nil {
				fmt.Fprintf(os.Stderr, "solver cvc5: model: %v\n", err)
				return Unknown, nil
			}
		}
		return Sat, model
	}
	return Unknown, nil
}

func firstN(s string, n int) string {
	if len(s) > n {
		return s[:n]
	}
	return s
}
