// Package smt: hash-consed term DAG over Bool and fixed-width bit-vectors
// (width 1..64), with constant folding, a concrete evaluator and an
// SMT-LIB2 printer.  One Ctx per worker; not safe for concurrent use.
package smt

import (
	"fmt"
	"math/bits"
	"strings"
)

type Op uint8

const (
	OConst Op = iota
	OVar
	ONot
	OAnd
	OOr
	OXorB
	OIte
	OEq
	OBvAdd
	OBvSub
	OBvMul
	OBvUDiv
	OBvURem
	OBvSDiv
	OBvSRem
	OBvAnd
	OBvOr
	OBvXor
	OBvNot
	OBvNeg
	OBvShl
	OBvLShr
	OBvAShr
	OBvUlt
	OBvUle
	OBvSlt
	OBvSle
	OConcat
	OExtract
	OZext
	OSext
)

var opNames = [...]string{
	OConst: "const", OVar: "var", ONot: "not", OAnd: "and", OOr: "or", OXorB: "xor", OIte: "ite", OEq: "=",
	OBvAdd: "bvadd", OBvSub: "bvsub", OBvMul: "bvmul", OBvUDiv: "bvudiv", OBvURem: "bvurem", OBvSDiv: "bvsdiv",
	OBvSRem: "bvsrem", OBvAnd: "bvand", OBvOr: "bvor", OBvXor: "bvxor", OBvNot: "bvnot", OBvNeg: "bvneg",
	OBvShl: "bvshl", OBvLShr: "bvlshr", OBvAShr: "bvashr", OBvUlt: "bvult", OBvUle: "bvule", OBvSlt: "bvslt",
	OBvSle: "bvsle", OConcat: "concat", OExtract: "extract", OZext: "zero_extend", OSext: "sign_extend",
}

// Term is an immutable node.  W==0 means Bool, otherwise a bit-vector of W bits.
type Term struct {
	ID   int
	Op   Op
	W    int
	Args []*Term
	Val  uint64 // OConst: value (masked); OExtract: hi<<8|lo; OZext/OSext: extra bits
	Name string // OVar
	ctx  *Ctx
}

type Ctx struct {
	terms  []*Term
	table  map[string]*Term
	vars   map[string]*Term
	True   *Term
	False  *Term
	consts map[[2]uint64]*Term
}

func NewCtx() *Ctx {
	c := &Ctx{table: map[string]*Term{}, vars: map[string]*Term{}, consts: map[[2]uint64]*Term{}}
	c.False = c.mk(&Term{Op: OConst, W: 0, Val: 0})
	c.True = c.mk(&Term{Op: OConst, W: 0, Val: 1})
	return c
}

func (c *Ctx) NumTerms() int { return len(c.terms) }

func mask(w int) uint64 {
	if w >= 64 {
		return ^uint64(0)
	}
	return (uint64(1) << uint(w)) - 1
}

func (c *Ctx) key(t *Term) string {
	var sb strings.Builder
	fmt.Fprintf(&sb, "%d:%d:%d:%s", t.Op, t.W, t.Val, t.Name)
	for _, a := range t.Args {
		fmt.Fprintf(&sb, ",%d", a.ID)
	}
	return sb.String()
}

func (c *Ctx) mk(t *Term) *Term {
	if t.Op == OConst {
		k := [2]uint64{uint64(t.W), t.Val}
		if o, ok := c.consts[k]; ok {
			return o
		}
		t.ID = len(c.terms)
		t.ctx = c
		c.terms = append(c.terms, t)
		c.consts[k] = t
		return t
	}
	k := c.key(t)
	if o, ok := c.table[k]; ok {
		return o
	}
	t.ID = len(c.terms)
	t.ctx = c
	c.terms = append(c.terms, t)
	c.table[k] = t
	return t
}

func (t *Term) IsConst() bool { return t.Op == OConst }
func (t *Term) IsBool() bool  { return t.W == 0 }
func (t *Term) IsTrue() bool  { return t.Op == OConst && t.W == 0 && t.Val == 1 }
func (t *Term) IsFalse() bool { return t.Op == OConst && t.W == 0 && t.Val == 0 }

// SignedVal returns the constant as a sign-extended int64.
func (t *Term) SignedVal() int64 { return sext64(t.Val, t.W) }

func sext64(v uint64, w int) int64 {
	if w >= 64 {
		return int64(v)
	}
	sh := uint(64 - w)
	return int64(v<<sh) >> sh
}

func (c *Ctx) Bool(b bool) *Term {
	if b {
		return c.True
	}
	return c.False
}

func (c *Ctx) BV(v uint64, w int) *Term {
	if w <= 0 || w > 64 {
		panic(fmt.Sprintf("smt: bad width %d", w))
	}
	return c.mk(&Term{Op: OConst, W: w, Val: v & mask(w)})
}

// Var returns the variable with the given name (created on first use).
func (c *Ctx) Var(name string, w int) *Term {
	if v, ok := c.vars[name]; ok {
		if v.W != w {
			panic(fmt.Sprintf("smt: variable %s redeclared with width %d (was %d)", name, w, v.W))
		}
		return v
	}
	v := c.mk(&Term{Op: OVar, W: w, Name: name})
	c.vars[name] = v
	return v
}

func (c *Ctx) Vars() map[string]*Term { return c.vars }

func (c *Ctx) Not(a *Term) *Term {
	if a.W != 0 {
		panic("smt: Not on non-bool")
	}
	if a.Op == OConst {
		return c.Bool(a.Val == 0)
	}
	if a.Op == ONot {
		return a.Args[0]
	}
	return c.mk(&Term{Op: ONot, Args: []*Term{a}})
}

func (c *Ctx) And(a, b *Term) *Term {
	if a.IsFalse() || b.IsFalse() {
		return c.False
	}
	if a.IsTrue() {
		return b
	}
	if b.IsTrue() || a == b {
		return a
	}
	if (a.Op == ONot && a.Args[0] == b) || (b.Op == ONot && b.Args[0] == a) {
		return c.False
	}
	if a.ID > b.ID {
		a, b = b, a
	}
	return c.mk(&Term{Op: OAnd, Args: []*Term{a, b}})
}

func (c *Ctx) Or(a, b *Term) *Term {
	if a.IsTrue() || b.IsTrue() {
		return c.True
	}
	if a.IsFalse() {
		return b
	}
	if b.IsFalse() || a == b {
		return a
	}
	if (a.Op == ONot && a.Args[0] == b) || (b.Op == ONot && b.Args[0] == a) {
		return c.True
	}
	if a.ID > b.ID {
		a, b = b, a
	}
	return c.mk(&Term{Op: OOr, Args: []*Term{a, b}})
}

func (c *Ctx) Implies(a, b *Term) *Term { return c.Or(c.Not(a), b) }

func (c *Ctx) Ite(cond, a, b *Term) *Term {
	if cond.W != 0 || a.W != b.W {
		panic(fmt.Sprintf("smt: Ite sorts %d %d %d", cond.W, a.W, b.W))
	}
	if cond.IsTrue() {
		return a
	}
	if cond.IsFalse() {
		return b
	}
	if a == b {
		return a
	}
	if a.W == 0 {
		if a.IsTrue() && b.IsFalse() {
			return cond
		}
		if a.IsFalse() && b.IsTrue() {
			return c.Not(cond)
		}
		if a.IsTrue() {
			return c.Or(cond, b)
		}
		if a.IsFalse() {
			return c.And(c.Not(cond), b)
		}
		if b.IsTrue() {
			return c.Or(c.Not(cond), a)
		}
		if b.IsFalse() {
			return c.And(cond, a)
		}
	}
	return c.mk(&Term{Op: OIte, W: a.W, Args: []*Term{cond, a, b}})
}

func (c *Ctx) Eq(a, b *Term) *Term {
	if a.W != b.W {
		panic(fmt.Sprintf("smt: Eq widths %d vs %d", a.W, b.W))
	}
	if a == b {
		return c.True
	}
	if a.Op == OConst && b.Op == OConst {
		return c.Bool(a.Val == b.Val)
	}
	if a.W == 0 {
		if a.Op == OConst {
			a, b = b, a
		}
		if b.IsTrue() {
			return a
		}
		if b.IsFalse() {
			return c.Not(a)
		}
	}
	// ite(c, k1, k2) == k  with constants: fold
	if b.Op == OConst && a.Op == OIte || a.Op == OConst && b.Op == OIte {
		it, k := a, b
		if a.Op == OConst {
			it, k = b, a
		}
		x, y := it.Args[1], it.Args[2]
		if x.Op == OConst && y.Op == OConst {
			ex, ey := x.Val == k.Val, y.Val == k.Val
			switch {
			case ex && ey:
				return c.True
			case ex:
				return it.Args[0]
			case ey:
				return c.Not(it.Args[0])
			default:
				return c.False
			}
		}
	}
	// zext(x) == const: compare in the narrow width when it fits
	if b.Op == OConst && a.Op == OZext {
		nw := a.Args[0].W
		if b.Val&^mask(nw) != 0 {
			return c.False
		}
		return c.Eq(a.Args[0], c.BV(b.Val, nw))
	}
	if a.Op == OConst && b.Op == OZext {
		return c.Eq(b, a)
	}
	if a.ID > b.ID {
		a, b = b, a
	}
	return c.mk(&Term{Op: OEq, Args: []*Term{a, b}})
}

func (c *Ctx) Ne(a, b *Term) *Term { return c.Not(c.Eq(a, b)) }

func evalBin(op Op, w int, x, y uint64) uint64 {
	m := mask(w)
	switch op {
	case OBvAdd:
		return (x + y) & m
	case OBvSub:
		return (x - y) & m
	case OBvMul:
		return (x * y) & m
	case OBvUDiv:
		if y == 0 {
			return m
		}
		return x / y
	case OBvURem:
		if y == 0 {
			return x
		}
		return x % y
	case OBvSDiv:
		sx, sy := sext64(x, w), sext64(y, w)
		if sy == 0 {
			if sx < 0 {
				return 1
			}
			return m
		}
		if sy == -1 {
			return uint64(-sx) & m
		}
		return uint64(sx/sy) & m
	case OBvSRem:
		sx, sy := sext64(x, w), sext64(y, w)
		if sy == 0 {
			return x
		}
		if sy == -1 {
			return 0
		}
		return uint64(sx%sy) & m
	case OBvAnd:
		return x & y
	case OBvOr:
		return x | y
	case OBvXor:
		return x ^ y
	case OBvShl:
		if y >= uint64(w) {
			return 0
		}
		return (x << y) & m
	case OBvLShr:
		if y >= uint64(w) {
			return 0
		}
		return x >> y
	case OBvAShr:
		sx := sext64(x, w)
		if y >= uint64(w) {
			y = uint64(w - 1)
		}
		return uint64(sx>>y) & m
	case OBvUlt:
		return b2u(x < y)
	case OBvUle:
		return b2u(x <= y)
	case OBvSlt:
		return b2u(sext64(x, w) < sext64(y, w))
	case OBvSle:
		return b2u(sext64(x, w) <= sext64(y, w))
	}
	panic("evalBin: bad op")
}

func b2u(b bool) uint64 {
	if b {
		return 1
	}
	return 0
}

// Bin builds a binary bit-vector operation (arithmetic/logic/shift/comparison).
func (c *Ctx) Bin(op Op, a, b *Term) *Term {
	if a.W != b.W || a.W == 0 {
		panic(fmt.Sprintf("smt: Bin %s widths %d vs %d", opNames[op], a.W, b.W))
	}
	w := a.W
	isCmp := op >= OBvUlt && op <= OBvSle
	if a.Op == OConst && b.Op == OConst {
		v := evalBin(op, w, a.Val, b.Val)
		if isCmp {
			return c.Bool(v != 0)
		}
		return c.BV(v, w)
	}
	switch op {
	case OBvAdd, OBvOr, OBvXor:
		if a.Op == OConst && a.Val == 0 {
			return b
		}
		if b.Op == OConst && b.Val == 0 {
			return a
		}
	case OBvSub, OBvShl, OBvLShr, OBvAShr:
		if b.Op == OConst && b.Val == 0 {
			return a
		}
		if op == OBvSub && a == b {
			return c.BV(0, w)
		}
	case OBvMul:
		if a.Op == OConst && a.Val == 1 {
			return b
		}
		if b.Op == OConst && b.Val == 1 {
			return a
		}
		if (a.Op == OConst && a.Val == 0) || (b.Op == OConst && b.Val == 0) {
			return c.BV(0, w)
		}
	case OBvAnd:
		if (a.Op == OConst && a.Val == 0) || (b.Op == OConst && b.Val == 0) {
			return c.BV(0, w)
		}
		if a.Op == OConst || b.Op == OConst {
			k, x := a, b
			if b.Op == OConst {
				k, x = b, a
			}
			ub := c.UB(x)
			n := bits.Len64(ub)
			if n < 64 && k.Val&((uint64(1)<<uint(n))-1) == 0 {
				return c.BV(0, w) // constant has no bit below x's highest possible bit
			}
		}
		// zext(x) & k  with k having no bits inside x's width is 0
		if a.Op == OZext && b.Op == OConst && b.Val&mask(a.Args[0].W) == 0 {
			return c.BV(0, w)
		}
		if b.Op == OZext && a.Op == OConst && a.Val&mask(b.Args[0].W) == 0 {
			return c.BV(0, w)
		}
		if a.Op == OConst && a.Val == mask(w) {
			return b
		}
		if b.Op == OConst && b.Val == mask(w) {
			return a
		}
		if a == b {
			return a
		}
	case OBvUDiv, OBvSDiv:
		if b.Op == OConst && b.Val == 1 {
			return a
		}
	case OBvUlt, OBvSlt:
		if a == b {
			return c.False
		}
	case OBvUle, OBvSle:
		if a == b {
			return c.True
		}
	}
	if isCmp && b.Op == OConst {
		ub := c.UB(a)
		switch op {
		case OBvUlt:
			if ub < b.Val {
				return c.True
			}
		case OBvUle:
			if ub <= b.Val {
				return c.True
			}
		case OBvSlt:
			if ub < uint64(1)<<uint(w-1) && int64(ub) < sext64(b.Val, w) {
				return c.True
			}
			if ub < uint64(1)<<uint(w-1) && sext64(b.Val, w) <= 0 {
				return c.False
			}
		case OBvSle:
			if ub < uint64(1)<<uint(w-1) && int64(ub) <= sext64(b.Val, w) {
				return c.True
			}
			if ub < uint64(1)<<uint(w-1) && sext64(b.Val, w) < 0 {
				return c.False
			}
		}
	}
	if isCmp && a.Op == OConst {
		ub := c.UB(b)
		switch op {
		case OBvUlt:
			if ub <= a.Val {
				return c.False
			}
		case OBvUle:
			if ub < a.Val {
				return c.False
			}
		case OBvSlt:
			if ub < uint64(1)<<uint(w-1) && sext64(a.Val, w) < 0 {
				return c.True
			}
			if ub < uint64(1)<<uint(w-1) && sext64(a.Val, w) >= int64(ub) {
				return c.False
			}
		case OBvSle:
			if ub < uint64(1)<<uint(w-1) && sext64(a.Val, w) <= 0 {
				return c.True
			}
			if ub < uint64(1)<<uint(w-1) && sext64(a.Val, w) > int64(ub) {
				return c.False
			}
		}
	}
	// comparisons of zero-extended narrow values against constants
	if isCmp && (op == OBvUlt || op == OBvUle) {
		if a.Op == OZext && b.Op == OConst {
			nw := a.Args[0].W
			if b.Val > mask(nw) {
				return c.True
			}
			return c.Bin(op, a.Args[0], c.BV(b.Val, nw))
		}
		if b.Op == OZext && a.Op == OConst {
			nw := b.Args[0].W
			if a.Val > mask(nw) {
				return c.False
			}
			return c.Bin(op, c.BV(a.Val, nw), b.Args[0])
		}
	}
	commut := op == OBvAdd || op == OBvMul || op == OBvAnd || op == OBvOr || op == OBvXor
	if commut && a.ID > b.ID {
		a, b = b, a
	}
	rw := w
	if isCmp {
		rw = 0
	}
	return c.mk(&Term{Op: op, W: rw, Args: []*Term{a, b}})
}

func (c *Ctx) BvNot(a *Term) *Term {
	if a.Op == OConst {
		return c.BV(^a.Val, a.W)
	}
	if a.Op == OBvNot {
		return a.Args[0]
	}
	return c.mk(&Term{Op: OBvNot, W: a.W, Args: []*Term{a}})
}

func (c *Ctx) BvNeg(a *Term) *Term {
	if a.Op == OConst {
		return c.BV(-a.Val, a.W)
	}
	return c.mk(&Term{Op: OBvNeg, W: a.W, Args: []*Term{a}})
}

// UB returns an upper bound of t read as an unsigned number (cheap syntactic analysis).
func (c *Ctx) UB(t *Term) uint64 {
	if t.W == 0 {
		return 1
	}
	switch t.Op {
	case OConst:
		return t.Val
	case OZext:
		return c.UB(t.Args[0])
	case OBvAnd:
		a, b := c.UB(t.Args[0]), c.UB(t.Args[1])
		if a < b {
			return a
		}
		return b
	case OBvURem:
		if t.Args[1].Op == OConst && t.Args[1].Val > 0 {
			return t.Args[1].Val - 1
		}
	case OBvUDiv:
		return c.UB(t.Args[0])
	case OBvLShr:
		if t.Args[1].Op == OConst && t.Args[1].Val < 64 {
			return c.UB(t.Args[0]) >> t.Args[1].Val
		}
		return c.UB(t.Args[0])
	case OIte:
		a, b := c.UB(t.Args[1]), c.UB(t.Args[2])
		if a > b {
			return a
		}
		return b
	case OExtract:
		if t.Val&0xff == 0 {
			u := c.UB(t.Args[0])
			if u <= mask(t.W) {
				return u
			}
		}
	case OBvOr, OBvXor:
		a, b := c.UB(t.Args[0]), c.UB(t.Args[1])
		if a < b {
			a = b
		}
		// round up to all-ones of the same bit length
		n := bits.Len64(a)
		if n >= 64 {
			return mask(t.W)
		}
		return (uint64(1) << uint(n)) - 1
	}
	return mask(t.W)
}

func (c *Ctx) Extract(a *Term, hi, lo int) *Term {
	if hi >= a.W || lo < 0 || hi < lo {
		panic(fmt.Sprintf("smt: Extract [%d:%d] of width %d", hi, lo, a.W))
	}
	if lo == 0 && hi == a.W-1 {
		return a
	}
	w := hi - lo + 1
	if a.Op == OConst {
		return c.BV(a.Val>>uint(lo), w)
	}
	if (a.Op == OZext || a.Op == OSext) && lo == 0 {
		in := a.Args[0]
		if w == in.W {
			return in
		}
		if w < in.W {
			return c.Extract(in, hi, 0)
		}
		if a.Op == OZext {
			return c.Zext(in, w)
		}
		return c.Sext(in, w)
	}
	return c.mk(&Term{Op: OExtract, W: w, Args: []*Term{a}, Val: uint64(hi)<<8 | uint64(lo)})
}

// Zext zero-extends a to width w (w >= a.W).
func (c *Ctx) Zext(a *Term, w int) *Term {
	if w == a.W {
		return a
	}
	if w < a.W {
		panic("smt: Zext narrows")
	}
	if a.Op == OConst {
		return c.BV(a.Val, w)
	}
	if a.Op == OZext {
		return c.Zext(a.Args[0], w)
	}
	return c.mk(&Term{Op: OZext, W: w, Args: []*Term{a}, Val: uint64(w - a.W)})
}

func (c *Ctx) Sext(a *Term, w int) *Term {
	if w == a.W {
		return a
	}
	if w < a.W {
		panic("smt: Sext narrows")
	}
	if a.Op == OConst {
		return c.BV(uint64(sext64(a.Val, a.W)), w)
	}
	if c.UB(a) < uint64(1)<<uint(a.W-1) {
		return c.Zext(a, w) // sign bit known to be clear
	}
	return c.mk(&Term{Op: OSext, W: w, Args: []*Term{a}, Val: uint64(w - a.W)})
}

// Resize converts a to width w: truncation, or sign/zero extension.
func (c *Ctx) Resize(a *Term, w int, signed bool) *Term {
	switch {
	case w == a.W:
		return a
	case w < a.W:
		return c.Extract(a, w-1, 0)
	case signed:
		return c.Sext(a, w)
	default:
		return c.Zext(a, w)
	}
}

func (c *Ctx) Concat(hi, lo *Term) *Term {
	w := hi.W + lo.W
	if w > 64 {
		panic("smt: Concat wider than 64")
	}
	if hi.Op == OConst && lo.Op == OConst {
		return c.BV(hi.Val<<uint(lo.W)|lo.Val, w)
	}
	return c.mk(&Term{Op: OConcat, W: w, Args: []*Term{hi, lo}})
}

// BoolToBV returns ite(b, 1, 0) of width w.
func (c *Ctx) BoolToBV(b *Term, w int) *Term { return c.Ite(b, c.BV(1, w), c.BV(0, w)) }

// Eval evaluates t under the assignment (missing variables are 0).
func (c *Ctx) Eval(t *Term, model map[string]uint64) uint64 {
	memo := map[int]uint64{}
	return c.eval(t, model, memo)
}

type Evaluator struct {
	c     *Ctx
	model map[string]uint64
	memo  map[int]uint64
}

func (c *Ctx) NewEvaluator(model map[string]uint64) *Evaluator {
	return &Evaluator{c: c, model: model, memo: map[int]uint64{}}
}
func (e *Evaluator) Eval(t *Term) uint64 { return e.c.eval(t, e.model, e.memo) }

func (c *Ctx) eval(t *Term, model map[string]uint64, memo map[int]uint64) uint64 {
	switch t.Op {
	case OConst:
		return t.Val
	case OVar:
		return model[t.Name] & maskOrBool(t.W)
	}
	if v, ok := memo[t.ID]; ok {
		return v
	}
	var r uint64
	switch t.Op {
	case ONot:
		r = 1 - c.eval(t.Args[0], model, memo)
	case OAnd:
		r = c.eval(t.Args[0], model, memo) & c.eval(t.Args[1], model, memo)
	case OOr:
		r = c.eval(t.Args[0], model, memo) | c.eval(t.Args[1], model, memo)
	case OXorB:
		r = c.eval(t.Args[0], model, memo) ^ c.eval(t.Args[1], model, memo)
	case OIte:
		if c.eval(t.Args[0], model, memo) != 0 {
			r = c.eval(t.Args[1], model, memo)
		} else {
			r = c.eval(t.Args[2], model, memo)
		}
	case OEq:
		r = b2u(c.eval(t.Args[0], model, memo) == c.eval(t.Args[1], model, memo))
	case OBvNot:
		r = ^c.eval(t.Args[0], model, memo) & mask(t.W)
	case OBvNeg:
		r = -c.eval(t.Args[0], model, memo) & mask(t.W)
	case OExtract:
		hi, lo := int(t.Val>>8), int(t.Val&0xff)
		r = (c.eval(t.Args[0], model, memo) >> uint(lo)) & mask(hi-lo+1)
	case OZext:
		r = c.eval(t.Args[0], model, memo)
	case OSext:
		r = uint64(sext64(c.eval(t.Args[0], model, memo), t.Args[0].W)) & mask(t.W)
	case OConcat:
		r = c.eval(t.Args[0], model, memo)<<uint(t.Args[1].W) | c.eval(t.Args[1], model, memo)
	default:
		r = evalBin(t.Op, t.Args[0].W, c.eval(t.Args[0], model, memo), c.eval(t.Args[1], model, memo))
	}
	memo[t.ID] = r
	return r
}

func maskOrBool(w int) uint64 {
	if w == 0 {
		return 1
	}
	return mask(w)
}

// CollectVars appends the variables occurring in t to out (deduplicated via seen).
func CollectVars(t *Term, seen map[int]bool, out *[]*Term) {
	if seen[t.ID] {
		return
	}
	seen[t.ID] = true
	if t.Op == OVar {
		*out = append(*out, t)
		return
	}
	for _, a := range t.Args {
		CollectVars(a, seen, out)
	}
}

func sortString(w int) string {
	if w == 0 {
		return "Bool"
	}
	return fmt.Sprintf("(_ BitVec %d)", w)
}

func constString(t *Term) string {
	if t.W == 0 {
		if t.Val != 0 {
			return "true"
		}
		return "false"
	}
	if t.W%4 == 0 {
		return fmt.Sprintf("#x%0*x", t.W/4, t.Val)
	}
	return fmt.Sprintf("#b%0*b", t.W, t.Val)
}

// SymName is the SMT-LIB symbol for a variable.
func SymName(name string) string {
	return "|" + strings.NewReplacer("|", "_", "\\", "_").Replace(name) + "|"
}

// ref is how a term is referred to inside other definitions.
func ref(t *Term) string {
	switch t.Op {
	case OConst:
		return constString(t)
	case OVar:
		return SymName(t.Name)
	}
	return fmt.Sprintf("t%d", t.ID)
}

// body returns the SMT-LIB expression defining t in terms of refs to its args.
func body(t *Term) string {
	switch t.Op {
	case OExtract:
		return fmt.Sprintf("((_ extract %d %d) %s)", t.Val>>8, t.Val&0xff, ref(t.Args[0]))
	case OZext:
		return fmt.Sprintf("((_ zero_extend %d) %s)", t.Val, ref(t.Args[0]))
	case OSext:
		return fmt.Sprintf("((_ sign_extend %d) %s)", t.Val, ref(t.Args[0]))
	}
	var sb strings.Builder
	sb.WriteByte('(')
	sb.WriteString(opNames[t.Op])
	for _, a := range t.Args {
		sb.WriteByte(' ')
		sb.WriteString(ref(a))
	}
	sb.WriteByte(')')
	return sb.String()
}

// Emitter tracks which terms have been defined in one solver process.
type Emitter struct {
	defined map[int]bool
}

func NewEmitter() *Emitter { return &Emitter{defined: map[int]bool{}} }

// Define writes the declarations/definitions needed to refer to t and returns the reference.
func (e *Emitter) Define(t *Term, sb *strings.Builder) string {
	e.define(t, sb)
	return ref(t)
}

func (e *Emitter) define(t *Term, sb *strings.Builder) {
	if t.Op == OConst || e.defined[t.ID] {
		return
	}
	// iterative post-order to avoid deep recursion on long chains
	type fr struct {
		t *Term
		i int
	}
	stack := []fr{{t, 0}}
	for len(stack) > 0 {
		top := &stack[len(stack)-1]
		if top.t.Op == OConst || e.defined[top.t.ID] {
			stack = stack[:len(stack)-1]
			continue
		}
		if top.i < len(top.t.Args) {
			a := top.t.Args[top.i]
			top.i++
			if a.Op != OConst && !e.defined[a.ID] {
				stack = append(stack, fr{a, 0})
			}
			continue
		}
		x := top.t
		e.defined[x.ID] = true
		if x.Op == OVar {
			fmt.Fprintf(sb, "(declare-fun %s () %s)\n", SymName(x.Name), sortString(x.W))
		} else {
			fmt.Fprintf(sb, "(define-fun t%d () %s %s)\n", x.ID, sortString(x.W), body(x))
		}
		stack = stack[:len(stack)-1]
	}
}

// String renders a term as a (possibly large) expression tree, for diagnostics; depth-limited.
func (t *Term) String() string { return t.str(6) }

func (t *Term) str(d int) string {
	switch t.Op {
	case OConst:
		if t.W == 0 {
			return constString(t)
		}
		return fmt.Sprintf("%d", t.Val)
	case OVar:
		return t.Name
	}
	if d == 0 {
		return fmt.Sprintf("t%d", t.ID)
	}
	var sb strings.Builder
	sb.WriteByte('(')
	switch t.Op {
	case OExtract:
		fmt.Fprintf(&sb, "extract[%d:%d]", t.Val>>8, t.Val&0xff)
	case OZext, OSext:
		fmt.Fprintf(&sb, "%s%d", opNames[t.Op], t.W)
	default:
		sb.WriteString(opNames[t.Op])
	}
	for _, a := range t.Args {
		sb.WriteByte(' ')
		sb.WriteString(a.str(d - 1))
	}
	sb.WriteByte(')')
	return sb.String()
}

var _ = bits.Len
