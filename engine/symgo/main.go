package main

import (
	"encoding/json"
	"flag"
	"fmt"
	"os"
	"path/filepath"
	"strings"
	"time"

	"symgo/interp"
	"symgo/smt"
)

const snapd = "github.com/snapcore/snapd"

func main() {
	if len(os.Args) < 2 {
		fmt.Fprintln(os.Stderr, "usage: symgo run|check|replay|selftest ...")
		os.Exit(2)
	}
	switch os.Args[1] {
	case "run":
		os.Exit(cmdRun(os.Args[2:]))
	case "check":
		os.Exit(cmdCheck(os.Args[2:]))
	case "selftest":
		os.Exit(cmdSelftest(os.Args[2:]))
	case "replay":
		os.Exit(cmdReplay(os.Args[2:]))
	default:
		fmt.Fprintln(os.Stderr, "unknown command", os.Args[1])
		os.Exit(2)
	}
}

// overlayFor maps harness files into the repo tree.
func overlayFor(repo, verif string, pkgRel string, files []string) (map[string][]byte, error) {
	ov := map[string][]byte{}
	zz, err := os.ReadFile(filepath.Join(verif, "engine", "symgo", "zzverif", "zzverif.go"))
	if err != nil {
		return nil, err
	}
	ov[filepath.Join(repo, "zzverif", "zzverif.go")] = zz
	for _, f := range files {
		data, err := os.ReadFile(f)
		if err != nil {
			return nil, err
		}
		ov[filepath.Join(repo, pkgRel, "zz_verif_"+filepath.Base(f))] = data
	}
	return ov, nil
}

func cmdRun(args []string) int {
	fs := flag.NewFlagSet("run", flag.ExitOnError)
	repo := fs.String("repo", "/repo", "")
	verif := fs.String("verif", "/verif", "")
	pkg := fs.String("pkg", "", "package path relative to the module root")
	fn := fs.String("fn", "", "harness function")
	files := fs.String("files", "", "comma-separated harness files")
	once := fs.String("once", "", "comma-separated once-init packages")
	pinit := fs.String("init", "", "comma-separated per-path init packages (default: the harness package)")
	workers := fs.Int("workers", 4, "")
	maxPaths := fs.Int("max-paths", 0, "")
	trace := fs.Bool("trace", false, "")
	verbose := fs.Bool("v", false, "")
	cvc := fs.Bool("cvc", false, "prefer cvc5")
	params := fs.String("params", "", "k=v,k=v")
	saveq := fs.String("saveq", "", "directory for query dumps")
	zero := fs.String("zero", "", "comma-separated functions stubbed to return zero values")
	fs.Parse(args)
	ov, err := overlayFor(*repo, *verif, *pkg, strings.Split(*files, ","))
	if err != nil {
		fmt.Fprintln(os.Stderr, err)
		return 2
	}
	t0 := time.Now()
	prog, err := interp.Load(interp.LoadConfig{Dir: *repo, Patterns: []string{"./" + *pkg}, Overlay: ov,
		Env: []string{"GOFLAGS=-mod=mod", "GOPROXY=off", "GOSUMDB=off", "GOTOOLCHAIN=local", "CGO_ENABLED=0"}})
	if err != nil {
		fmt.Fprintln(os.Stderr, "load:", err)
		return 2
	}
	fmt.Fprintf(os.Stderr, "loaded in %.1fs\n", time.Since(t0).Seconds())
	ec := interp.ExploreConfig{
		HarnessPkg: snapd + "/" + *pkg, HarnessFn: *fn, Workers: *workers, MaxPaths: *maxPaths, Verbose: *verbose,
		Solver: smt.Options{PreferCVC: *cvc, LogPath: os.Getenv("SYMGO_SOLVER_LOG")}, Params: map[string]int{},
	}
	ec.Opts.Trace = *trace
	ec.SaveQueriesDir = *saveq
	if *zero != "" {
		ec.ZeroStubs = strings.Split(*zero, ",")
	}
	ec.OnceInit = defaultOnce()
	if *once != "" {
		ec.OnceInit = append(ec.OnceInit, strings.Split(*once, ",")...)
	}
	if *pinit != "" {
		for _, p := range strings.Split(*pinit, ",") {
			if strings.Contains(p, ".") {
				ec.PathInit = append(ec.PathInit, p)
			} else {
				ec.PathInit = append(ec.PathInit, snapd+"/"+p)
			}
		}
	} else {
		ec.PathInit = []string{snapd + "/" + *pkg}
	}
	if *params != "" {
		for _, kv := range strings.Split(*params, ",") {
			var k string
			var v int
			if i := strings.IndexByte(kv, '='); i > 0 {
				k = kv[:i]
				fmt.Sscanf(kv[i+1:], "%d", &v)
				ec.Params[k] = v
			}
		}
	}
	res, err := prog.Explore(ec)
	if err != nil {
		fmt.Fprintln(os.Stderr, "explore:", err)
		return 2
	}
	out, _ := json.MarshalIndent(map[string]interface{}{
		"paths": res.Paths, "status": res.ByStatus, "violations": res.Violations, "problems": res.Problems,
		"reached": res.Reached, "asserts": res.AssertHit, "assert_queries": res.Asserts, "sym_paths": res.SymPaths,
		"solver": res.Solver, "wall_s": res.WallSec, "steps": res.Steps, "samples": res.Samples,
		"nfuncs": len(res.Funcs), "intrinsics": res.Intrinsics, "exhausted": res.Exhausted,
	}, "", " ")
	fmt.Println(string(out))
	if len(res.Violations) > 0 {
		return 1
	}
	return 0
}

func defaultOnce() []string {
	// std packages whose package-level variables (error values, tables) the interpreted code may
	// observe; initialised once per worker.  Packages that need the runtime, the OS or reflection
	// at init time are left out (their entry points are intrinsics).
	return []string{"unicode", "unicode/utf8", "strconv", "strings", "bytes", "io", "io/fs", "bufio", "sort", "math", "math/bits",
		"path", "path/filepath", "internal/bytealg", "internal/itoa", "time", "encoding/base64", "encoding/hex", "encoding/binary",
		"container/list", "container/heap", "unicode/utf16", "hash/crc32", "context", "text/tabwriter", "regexp/syntax", "slices", "maps", "cmp",
		"gopkg.in/tomb.v2", "crypto"}
}
