package interp

// regexp intrinsics: patterns are compiled by the host regexp package (the pattern
// text comes from the interpreted source); matching concrete text is delegated to the
// host; boolean matching of text with symbolic bytes is a symbolic Thompson-NFA
// simulation over regexp/syntax's program, producing one Bool term (no forking).

import (
	"fmt"
	"go/types"
	"regexp"
	"regexp/syntax"
	"unicode"

	"symgo/smt"
)

func init() {
	for k, v := range map[string]externalFn{
		"regexp.MustCompile":      func(fr *frame, a []value) value { return fr.i.reCompile(a[0], false, true) },
		"regexp.MustCompilePOSIX": func(fr *frame, a []value) value { return fr.i.reCompile(a[0], true, true) },
		"regexp.Compile":          func(fr *frame, a []value) value { return fr.i.reCompile(a[0], false, false) },
		"regexp.CompilePOSIX":     func(fr *frame, a []value) value { return fr.i.reCompile(a[0], true, false) },
		"regexp.MatchString": func(fr *frame, a []value) value {
			re := fr.i.reCompile(a[0], false, false).(tuple)
			if re[1].(iface).t != nil {
				return tuple{false, re[1]}
			}
			return tuple{fr.i.reMatch(reOf(re[0]), a[1]), iface{}}
		},
		"regexp.QuoteMeta": func(fr *frame, a []value) value {
			return regexp.QuoteMeta(fr.i.concStr(a[0], "regexp.QuoteMeta"))
		},
		"(*regexp.Regexp).MatchString": func(fr *frame, a []value) value { return fr.i.reMatch(reOf(a[0]), a[1]) },
		"(*regexp.Regexp).Match":       func(fr *frame, a []value) value { return fr.i.reMatch(reOf(a[0]), mkstr(a[1].([]value))) },
		"(*regexp.Regexp).String":      func(fr *frame, a []value) value { return reOf(a[0]).String() },
		"(*regexp.Regexp).NumSubexp":   func(fr *frame, a []value) value { return reOf(a[0]).NumSubexp() },
		"(*regexp.Regexp).Longest":     func(fr *frame, a []value) value { reOf(a[0]).Longest(); return nil },
		"(*regexp.Regexp).SubexpNames": func(fr *frame, a []value) value { return strSlice(reOf(a[0]).SubexpNames()) },
		"(*regexp.Regexp).SubexpIndex": func(fr *frame, a []value) value {
			return reOf(a[0]).SubexpIndex(fr.i.concStr(a[1], "regexp subexp name"))
		},
		"(*regexp.Regexp).FindString": func(fr *frame, a []value) value {
			return reOf(a[0]).FindString(fr.i.concStr(a[1], "regexp FindString"))
		},
		"(*regexp.Regexp).FindStringIndex": func(fr *frame, a []value) value {
			return intSlice(reOf(a[0]).FindStringIndex(fr.i.concStr(a[1], "regexp FindStringIndex")))
		},
		"(*regexp.Regexp).FindStringSubmatch": func(fr *frame, a []value) value {
			return fr.i.reSubmatch(reOf(a[0]), a[1])
		},
		"(*regexp.Regexp).FindStringSubmatchIndex": func(fr *frame, a []value) value {
			return intSlice(fr.i.reSubmatchIndex(reOf(a[0]), a[1]))
		},
		"(*regexp.Regexp).FindSubmatch": func(fr *frame, a []value) value {
			m := reOf(a[0]).FindSubmatch([]byte(fr.i.concStr(mkstr(a[1].([]value)), "regexp FindSubmatch")))
			if m == nil {
				return []value(nil)
			}
			out := make([]value, len(m))
			for k, b := range m {
				if b == nil {
					out[k] = []value(nil)
				} else {
					out[k] = strBytes(string(b))
				}
			}
			return out
		},
		"(*regexp.Regexp).FindAllString": func(fr *frame, a []value) value {
			return strSlice(reOf(a[0]).FindAllString(fr.i.concStr(a[1], "regexp FindAllString"), a[2].(int)))
		},
		"(*regexp.Regexp).FindAllStringIndex": func(fr *frame, a []value) value {
			m := reOf(a[0]).FindAllStringIndex(fr.i.concStr(a[1], "regexp FindAllStringIndex"), a[2].(int))
			if m == nil {
				return []value(nil)
			}
			out := make([]value, len(m))
			for k := range m {
				out[k] = intSlice(m[k])
			}
			return out
		},
		"(*regexp.Regexp).FindAllStringSubmatch": func(fr *frame, a []value) value {
			m := reOf(a[0]).FindAllStringSubmatch(fr.i.concStr(a[1], "regexp FindAllStringSubmatch"), a[2].(int))
			if m == nil {
				return []value(nil)
			}
			out := make([]value, len(m))
			for k := range m {
				out[k] = strSlice(m[k])
			}
			return out
		},
		"(*regexp.Regexp).ReplaceAllString": func(fr *frame, a []value) value {
			return reOf(a[0]).ReplaceAllString(fr.i.concStr(a[1], "regexp ReplaceAllString"), fr.i.concStr(a[2], "regexp replacement"))
		},
		"(*regexp.Regexp).ReplaceAllLiteralString": func(fr *frame, a []value) value {
			return reOf(a[0]).ReplaceAllLiteralString(fr.i.concStr(a[1], "regexp ReplaceAllLiteralString"), fr.i.concStr(a[2], "regexp replacement"))
		},
		"(*regexp.Regexp).ReplaceAllStringFunc": func(fr *frame, a []value) value {
			return reOf(a[0]).ReplaceAllStringFunc(fr.i.concStr(a[1], "regexp ReplaceAllStringFunc"), func(m string) string {
				return fr.i.concStr(call(fr.i, fr, 0, a[2], []value{m}), "regexp repl result")
			})
		},
		"(*regexp.Regexp).Split": func(fr *frame, a []value) value {
			return strSlice(reOf(a[0]).Split(fr.i.concStr(a[1], "regexp Split"), a[2].(int)))
		},
	} {
		externals[k] = v
	}
}

func strSlice(s []string) value {
	if s == nil {
		return []value(nil)
	}
	out := make([]value, len(s))
	for k := range s {
		out[k] = s[k]
	}
	return out
}

func intSlice(s []int) value {
	if s == nil {
		return []value(nil)
	}
	out := make([]value, len(s))
	for k := range s {
		out[k] = s[k]
	}
	return out
}

// concStr requires a concrete string.
func (i *interpreter) concStr(v value, what string) string {
	if s, ok := v.(string); ok {
		return s
	}
	panic(unsupported(what + " on text with symbolic bytes"))
}

func reOf(v value) *regexp.Regexp {
	p := v.(*value)
	if p == nil {
		panic(targetPanic{iface{nil, "runtime error: nil *regexp.Regexp"}})
	}
	return (*p).(native).v.(*regexp.Regexp)
}

func (i *interpreter) reCompile(pat value, posix, must bool) value {
	s := i.concStr(pat, "regexp.Compile of a pattern")
	var re *regexp.Regexp
	var err error
	if posix {
		re, err = regexp.CompilePOSIX(s)
	} else {
		re, err = regexp.Compile(s)
	}
	if err != nil {
		if must {
			panic(targetPanic{iface{i.runtimeErrorString, "regexp: " + err.Error()}})
		}
		ep := i.prog.ImportedPackage("errors")
		t := ep.Type("errorString").Object().Type()
		cell := value(structure{err.Error()})
		return tuple{(*value)(nil), iface{t: types.NewPointer(t), v: &cell}}
	}
	cell := value(native{re})
	if must {
		return &cell
	}
	return tuple{&cell, iface{}}
}

// reMatch reports whether re matches anywhere in text (bool or Bool term).
func (i *interpreter) reMatch(re *regexp.Regexp, text value) value {
	if s, ok := text.(string); ok {
		return re.MatchString(s)
	}
	bs := strBytes(text)
	c := i.ctx
	// symbolic bytes must be ASCII for the byte-level simulation to be exact
	for _, b := range bs {
		if t, ok := b.(*smt.Term); ok {
			if !i.truth(normBool(c.Bin(smt.OBvUlt, t, c.BV(0x80, 8)))) {
				panic(endPath{PathUnsupported, "regexp match on a symbolic byte that may be non-ASCII (add an ASCII assumption to the harness)"})
			}
		} else if b.(uint8) >= 0x80 {
			panic(unsupported("regexp match on mixed symbolic/non-ASCII text"))
		}
	}
	parsed, err := syntax.Parse(re.String(), syntax.Perl)
	if err != nil {
		// POSIX patterns
		parsed, err = syntax.Parse(re.String(), syntax.POSIX)
		if err != nil {
			panic(unsupported("regexp re-parse: " + err.Error()))
		}
	}
	prog, err := syntax.Compile(parsed.Simplify())
	if err != nil {
		panic(unsupported("regexp compile: " + err.Error()))
	}
	n := len(bs)
	bt := make([]*smt.Term, n)
	for k := range bs {
		bt[k] = i.toTerm(bs[k])
	}
	isWord := func(k int) *smt.Term {
		if k < 0 || k >= n {
			return c.False
		}
		b := bt[k]
		r := c.And(c.Bin(smt.OBvUle, c.BV('a', 8), b), c.Bin(smt.OBvUle, b, c.BV('z', 8)))
		r = c.Or(r, c.And(c.Bin(smt.OBvUle, c.BV('A', 8), b), c.Bin(smt.OBvUle, b, c.BV('Z', 8))))
		r = c.Or(r, c.And(c.Bin(smt.OBvUle, c.BV('0', 8), b), c.Bin(smt.OBvUle, b, c.BV('9', 8))))
		return c.Or(r, c.Eq(b, c.BV('_', 8)))
	}
	emptyCond := func(op syntax.EmptyOp, pos int) *smt.Term {
		r := c.True
		if op&syntax.EmptyBeginText != 0 {
			r = c.And(r, c.Bool(pos == 0))
		}
		if op&syntax.EmptyEndText != 0 {
			r = c.And(r, c.Bool(pos == n))
		}
		if op&syntax.EmptyBeginLine != 0 {
			if pos == 0 {
			} else {
				r = c.And(r, c.Eq(bt[pos-1], c.BV('\n', 8)))
			}
		}
		if op&syntax.EmptyEndLine != 0 {
			if pos == n {
			} else {
				r = c.And(r, c.Eq(bt[pos], c.BV('\n', 8)))
			}
		}
		if op&(syntax.EmptyWordBoundary|syntax.EmptyNoWordBoundary) != 0 {
			wb := c.Not(c.Eq(isWord(pos-1), isWord(pos)))
			if op&syntax.EmptyWordBoundary != 0 {
				r = c.And(r, wb)
			}
			if op&syntax.EmptyNoWordBoundary != 0 {
				r = c.And(r, c.Not(wb))
			}
		}
		return r
	}
	runeCond := func(in *syntax.Inst, b *smt.Term) *smt.Term {
		switch in.Op {
		case syntax.InstRuneAny:
			return c.True
		case syntax.InstRuneAnyNotNL:
			return c.Ne(b, c.BV('\n', 8))
		}
		fold := syntax.Flags(in.Arg)&syntax.FoldCase != 0
		rs := in.Rune
		r := c.False
		addRange := func(lo, hi rune) {
			if lo > 0x7f {
				return
			}
			if hi > 0x7f {
				hi = 0x7f
			}
			if lo == hi {
				r = c.Or(r, c.Eq(b, c.BV(uint64(lo), 8)))
			} else {
				r = c.Or(r, c.And(c.Bin(smt.OBvUle, c.BV(uint64(lo), 8), b), c.Bin(smt.OBvUle, b, c.BV(uint64(hi), 8))))
			}
		}
		if len(rs) == 1 {
			addRange(rs[0], rs[0])
			if fold {
				for f := unicode.SimpleFold(rs[0]); f != rs[0]; f = unicode.SimpleFold(f) {
					addRange(f, f)
				}
			}
			return r
		}
		for k := 0; k+1 < len(rs); k += 2 {
			addRange(rs[k], rs[k+1])
		}
		return r
	}
	// active[pc] = condition under which a thread is at pc before consuming byte pos
	npc := len(prog.Inst)
	active := make([]*smt.Term, npc)
	var add func(act []*smt.Term, pc int, cond *smt.Term, pos int, depth int)
	add = func(act []*smt.Term, pc int, cond *smt.Term, pos int, depth int) {
		if cond.IsFalse() {
			return
		}
		if depth > 4*npc+16 {
			panic(unsupported("regexp with empty loops"))
		}
		in := &prog.Inst[pc]
		switch in.Op {
		case syntax.InstAlt, syntax.InstAltMatch:
			add(act, int(in.Out), cond, pos, depth+1)
			add(act, int(in.Arg), cond, pos, depth+1)
		case syntax.InstNop, syntax.InstCapture:
			add(act, int(in.Out), cond, pos, depth+1)
		case syntax.InstEmptyWidth:
			add(act, int(in.Out), c.And(cond, emptyCond(syntax.EmptyOp(in.Arg), pos)), pos, depth+1)
		case syntax.InstFail:
		default: // rune instructions and match
			if act[pc] == nil {
				act[pc] = cond
			} else {
				nc := c.Or(act[pc], cond)
				act[pc] = nc
			}
		}
	}
	matched := c.False
	collect := func(act []*smt.Term) {
		for pc, cond := range act {
			if cond != nil && prog.Inst[pc].Op == syntax.InstMatch {
				matched = c.Or(matched, cond)
			}
		}
	}
	for pos := 0; pos <= n; pos++ {
		// unanchored search: a new thread may start at every position
		add(active, prog.Start, c.True, pos, 0)
		collect(active)
		if pos == n {
			break
		}
		next := make([]*smt.Term, npc)
		for pc, cond := range active {
			if cond == nil {
				continue
			}
			in := &prog.Inst[pc]
			switch in.Op {
			case syntax.InstRune, syntax.InstRune1, syntax.InstRuneAny, syntax.InstRuneAnyNotNL:
				add(next, int(in.Out), c.And(cond, runeCond(in, bt[pos])), pos+1, 0)
			}
		}
		active = next
	}
	return normBool(matched)
}

var _ = fmt.Sprint
