package interp

import (
	"fmt"
	"go/token"
	"go/types"

	"symgo/smt"
)

// ---- type helpers ----

func deref(t types.Type) types.Type {
	if p, ok := t.Underlying().(*types.Pointer); ok {
		return p.Elem()
	}
	panic(fmt.Sprintf("deref: %s is not a pointer", t))
}

// intInfo returns (width, signed, ok) for integer basic types.
func intInfo(t types.Type) (int, bool, bool) {
	b, ok := t.Underlying().(*types.Basic)
	if !ok {
		return 0, false, false
	}
	switch b.Kind() {
	case types.Int, types.Int64, types.UntypedInt:
		return 64, true, true
	case types.Int8:
		return 8, true, true
	case types.Int16:
		return 16, true, true
	case types.Int32, types.UntypedRune:
		return 32, true, true
	case types.Uint, types.Uint64, types.Uintptr:
		return 64, false, true
	case types.Uint8:
		return 8, false, true
	case types.Uint16:
		return 16, false, true
	case types.Uint32:
		return 32, false, true
	}
	return 0, false, false
}

// toTerm converts a concrete scalar (or a term) to a term.
func (i *interpreter) toTerm(v value) *smt.Term {
	c := i.ctx
	switch v := v.(type) {
	case *smt.Term:
		return v
	case bool:
		return c.Bool(v)
	case int:
		return c.BV(uint64(v), 64)
	case int8:
		return c.BV(uint64(v), 8)
	case int16:
		return c.BV(uint64(v), 16)
	case int32:
		return c.BV(uint64(v), 32)
	case int64:
		return c.BV(uint64(v), 64)
	case uint:
		return c.BV(uint64(v), 64)
	case uint8:
		return c.BV(uint64(v), 8)
	case uint16:
		return c.BV(uint64(v), 16)
	case uint32:
		return c.BV(uint64(v), 32)
	case uint64:
		return c.BV(v, 64)
	case uintptr:
		return c.BV(uint64(v), 64)
	}
	panic(unsupported(fmt.Sprintf("toTerm: cannot make a term of %T", v)))
}

// fromConst converts a constant term back to the native value of type t.
func fromConst(t types.Type, x *smt.Term) value {
	if x.W == 0 {
		return x.Val != 0
	}
	b := t.Underlying().(*types.Basic)
	switch b.Kind() {
	case types.Int, types.UntypedInt:
		return int(x.SignedVal())
	case types.Int8:
		return int8(x.SignedVal())
	case types.Int16:
		return int16(x.SignedVal())
	case types.Int32, types.UntypedRune:
		return int32(x.SignedVal())
	case types.Int64:
		return x.SignedVal()
	case types.Uint:
		return uint(x.Val)
	case types.Uint8:
		return uint8(x.Val)
	case types.Uint16:
		return uint16(x.Val)
	case types.Uint32:
		return uint32(x.Val)
	case types.Uint64:
		return x.Val
	case types.Uintptr:
		return uintptr(x.Val)
	case types.Bool, types.UntypedBool:
		return x.Val != 0
	}
	panic(fmt.Sprintf("fromConst: %s", t))
}

// norm returns the native value when the term is constant.
func norm(t types.Type, x *smt.Term) value {
	if x.IsConst() {
		return fromConst(t, x)
	}
	return x
}

func normBool(x *smt.Term) value {
	if x.IsConst() {
		return x.Val != 0
	}
	return x
}

// andV / orV / notV combine bool-or-term values.
func (i *interpreter) andV(a, b value) value {
	if ab, ok := a.(bool); ok {
		if !ab {
			return false
		}
		return b
	}
	if bb, ok := b.(bool); ok {
		if !bb {
			return false
		}
		return a
	}
	return normBool(i.ctx.And(a.(*smt.Term), b.(*smt.Term)))
}

func (i *interpreter) orV(a, b value) value {
	if ab, ok := a.(bool); ok {
		if ab {
			return true
		}
		return b
	}
	if bb, ok := b.(bool); ok {
		if bb {
			return true
		}
		return a
	}
	return normBool(i.ctx.Or(a.(*smt.Term), b.(*smt.Term)))
}

func (i *interpreter) notV(a value) value {
	if ab, ok := a.(bool); ok {
		return !ab
	}
	return normBool(i.ctx.Not(a.(*smt.Term)))
}

func (i *interpreter) symEq(x *smt.Term, y value) value {
	return normBool(i.ctx.Eq(x, i.toTerm(y)))
}

// ---- strings with symbolic bytes ----

// mkstr normalises a byte vector to string (all concrete) or sstr.
func mkstr(b []value) value {
	allc := true
	for _, e := range b {
		if _, ok := e.(uint8); !ok {
			allc = false
			break
		}
	}
	if allc {
		bs := make([]byte, len(b))
		for k, e := range b {
			bs[k] = e.(uint8)
		}
		return string(bs)
	}
	return sstr(b)
}

// strBytes returns the byte vector of a string value (fresh slice for string, shared for sstr).
func strBytes(v value) []value {
	switch v := v.(type) {
	case string:
		out := make([]value, len(v))
		for k := 0; k < len(v); k++ {
			out[k] = v[k]
		}
		return out
	case sstr:
		return []value(v)
	}
	panic(fmt.Sprintf("strBytes: %T", v))
}

func strLen(v value) int {
	switch v := v.(type) {
	case string:
		return len(v)
	case sstr:
		return len(v)
	}
	panic(fmt.Sprintf("strLen: %T", v))
}

func isStr(v value) bool {
	switch v.(type) {
	case string, sstr:
		return true
	}
	return false
}

func (i *interpreter) byteEq(a, b value) value {
	if ac, ok := a.(uint8); ok {
		if bc, ok := b.(uint8); ok {
			return ac == bc
		}
	}
	return normBool(i.ctx.Eq(i.toTerm(a), i.toTerm(b)))
}

func (i *interpreter) strEq(x sstr, y value) value {
	yb := strBytes(y)
	if len(x) != len(yb) {
		return false
	}
	var acc value = true
	for k := range x {
		acc = i.andV(acc, i.byteEq(x[k], yb[k]))
		if acc == false {
			return false
		}
	}
	return acc
}

// strLess returns x < y (lexicographic, bytes unsigned).
func (i *interpreter) strLess(x, y value, orEqual bool) value {
	xb, yb := strBytes(x), strBytes(y)
	c := i.ctx
	// build from the end
	var rest *smt.Term
	n := len(xb)
	if len(yb) < n {
		n = len(yb)
	}
	// after common prefix equal: x<y iff len(x)<len(y); <= iff len(x)<=len(y)
	if orEqual {
		rest = c.Bool(len(xb) <= len(yb))
	} else {
		rest = c.Bool(len(xb) < len(yb))
	}
	for k := n - 1; k >= 0; k-- {
		a, b := i.toTerm(xb[k]), i.toTerm(yb[k])
		lt := c.Bin(smt.OBvUlt, a, b)
		eq := c.Eq(a, b)
		rest = c.Or(lt, c.And(eq, rest))
	}
	return normBool(rest)
}

// ---- symbolic scalar operators ----

func (i *interpreter) symBinop(op token.Token, t types.Type, x, y value) value {
	c := i.ctx
	// bool operands
	if b, ok := t.Underlying().(*types.Basic); ok && b.Info()&types.IsBoolean != 0 {
		a, bb := i.toTerm(x), i.toTerm(y)
		switch op {
		case token.EQL:
			return normBool(c.Eq(a, bb))
		case token.NEQ:
			return normBool(c.Ne(a, bb))
		case token.AND:
			return normBool(c.And(a, bb))
		case token.OR:
			return normBool(c.Or(a, bb))
		}
		panic(unsupported(fmt.Sprintf("symbolic bool op %s", op)))
	}
	w, signed, ok := intInfo(t)
	if !ok {
		panic(unsupported(fmt.Sprintf("symbolic operand in %s on %s (%T, %T)", op, t, x, y)))
	}
	a := i.toTerm(x)
	if op == token.SHL || op == token.SHR {
		// shift count has its own type; negative counts panic in Go (not modelled for symbolic counts).
		b := i.toTerm(y)
		if b.W < w {
			b = c.Zext(b, w)
		} else if b.W > w {
			big := c.Bin(smt.OBvUle, c.BV(uint64(w), b.W), b)
			b = c.Ite(big, c.BV(uint64(w), w), c.Extract(b, w-1, 0))
		}
		switch {
		case op == token.SHL:
			return norm(t, c.Bin(smt.OBvShl, a, b))
		case signed:
			return norm(t, c.Bin(smt.OBvAShr, a, b))
		default:
			return norm(t, c.Bin(smt.OBvLShr, a, b))
		}
	}
	b := i.toTerm(y)
	if a.W != b.W {
		panic(fmt.Sprintf("symBinop %s: width mismatch %d vs %d for %s", op, a.W, b.W, t))
	}
	switch op {
	case token.ADD:
		return norm(t, c.Bin(smt.OBvAdd, a, b))
	case token.SUB:
		return norm(t, c.Bin(smt.OBvSub, a, b))
	case token.MUL:
		return norm(t, c.Bin(smt.OBvMul, a, b))
	case token.QUO, token.REM:
		if i.truth(normBool(c.Eq(b, c.BV(0, w)))) {
			panic(targetPanic{i.runtimeErr("integer divide by zero")})
		}
		// division by a constant (not a power of two): quotient and remainder as auxiliary
		// variables defined by x = q*c + r, instead of a division circuit
		if b.IsConst() && !a.IsConst() && w >= 32 && b.Val&(b.Val-1) != 0 && !(signed && b.SignedVal() == -1) && i.path != nil && i.opts.Replay == nil {
			// only the multiplication-free case (x = a*c + b divided by the same c); a generic
			// quotient/remainder pair as auxiliary variables made pinned 19-digit conversions
			// slower than the plain division circuit, so everything else keeps bvudiv/bvsdiv
			if q, r, ok := i.divmodOfScaledSum(a, b.Val, signed); ok {
				if op == token.QUO {
					return norm(t, q)
				}
				return norm(t, r)
			}
		}
		var o smt.Op
		switch {
		case op == token.QUO && signed:
			o = smt.OBvSDiv
		case op == token.QUO:
			o = smt.OBvUDiv
		case signed:
			o = smt.OBvSRem
		default:
			o = smt.OBvURem
		}
		return norm(t, c.Bin(o, a, b))
	case token.AND:
		return norm(t, c.Bin(smt.OBvAnd, a, b))
	case token.OR:
		return norm(t, c.Bin(smt.OBvOr, a, b))
	case token.XOR:
		return norm(t, c.Bin(smt.OBvXor, a, b))
	case token.AND_NOT:
		return norm(t, c.Bin(smt.OBvAnd, a, c.BvNot(b)))
	case token.EQL, token.NEQ, token.LSS, token.LEQ, token.GTR, token.GEQ:
		if signed && w == 64 && i.path != nil && i.opts.Replay == nil {
			// comparisons of durations built as seconds*1e9+nanoseconds: multiplication-free form
			var r *smt.Term
			var ok bool
			switch op {
			case token.EQL:
				r, ok = i.compareScaled("eq", a, b)
			case token.NEQ:
				if r, ok = i.compareScaled("eq", a, b); ok {
					r = c.Not(r)
				}
			case token.LSS:
				r, ok = i.compareScaled("lt", a, b)
			case token.LEQ:
				r, ok = i.compareScaled("le", a, b)
			case token.GTR:
				r, ok = i.compareScaled("lt", b, a)
			case token.GEQ:
				r, ok = i.compareScaled("le", b, a)
			}
			if ok {
				return normBool(r)
			}
		}
	}
	switch op {
	case token.EQL:
		return normBool(c.Eq(a, b))
	case token.NEQ:
		return normBool(c.Ne(a, b))
	case token.LSS:
		if signed {
			return normBool(c.Bin(smt.OBvSlt, a, b))
		}
		return normBool(c.Bin(smt.OBvUlt, a, b))
	case token.LEQ:
		if signed {
			return normBool(c.Bin(smt.OBvSle, a, b))
		}
		return normBool(c.Bin(smt.OBvUle, a, b))
	case token.GTR:
		if signed {
			return normBool(c.Bin(smt.OBvSlt, b, a))
		}
		return normBool(c.Bin(smt.OBvUlt, b, a))
	case token.GEQ:
		if signed {
			return normBool(c.Bin(smt.OBvSle, b, a))
		}
		return normBool(c.Bin(smt.OBvUle, b, a))
	}
	panic(unsupported(fmt.Sprintf("symbolic binop %s", op)))
}

func (i *interpreter) symUnop(op token.Token, t types.Type, x *smt.Term) value {
	c := i.ctx
	switch op {
	case token.NOT:
		return normBool(c.Not(x))
	case token.SUB:
		return norm(t, c.BvNeg(x))
	case token.XOR:
		return norm(t, c.BvNot(x))
	}
	panic(unsupported(fmt.Sprintf("symbolic unop %s", op)))
}

// symConv converts a symbolic integer between integer types.
func (i *interpreter) symConv(tdst, tsrc types.Type, x *smt.Term) value {
	_, ssigned, ok1 := intInfo(tsrc)
	dw, _, ok2 := intInfo(tdst)
	if ok1 && ok2 {
		return norm(tdst, i.ctx.Resize(x, dw, ssigned))
	}
	if b, ok := tdst.Underlying().(*types.Basic); ok && b.Kind() == types.String && ok1 {
		// string(rune) of a symbolic rune: supported for ASCII after deciding the range.
		c := i.ctx
		if i.truth(normBool(c.Bin(smt.OBvUlt, c.Resize(x, 64, ssigned), c.BV(0x80, 64)))) {
			return mkstr([]value{norm(types.Typ[types.Uint8], c.Resize(x, 8, false))})
		}
		cv := i.concretize(x, tsrc)
		return conv(tdst, tsrc, cv)
	}
	if b, ok := tdst.Underlying().(*types.Basic); ok && b.Info()&types.IsFloat != 0 {
		cv := i.concretize(x, tsrc)
		return conv(tdst, tsrc, cv)
	}
	panic(unsupported(fmt.Sprintf("symbolic conversion %s -> %s", tsrc, tdst)))
}

// asIndex returns a concrete int64 for an index/length operand, concretising symbolic ones.
func (i *interpreter) asIndex(v value, t types.Type) int64 {
	if x, ok := v.(*smt.Term); ok {
		if t == nil {
			t = types.Typ[types.Int]
			if x.W != 64 {
				switch x.W {
				case 8:
					t = types.Typ[types.Uint8]
				case 16:
					t = types.Typ[types.Uint16]
				case 32:
					t = types.Typ[types.Int32]
				}
			}
		}
		return asInt64(i.concretize(x, t))
	}
	return asInt64(v)
}

// unsupportedErr marks constructs the engine cannot execute symbolically.
type unsupportedErr struct{ msg string }

func (u unsupportedErr) Error() string { return "unsupported: " + u.msg }

func unsupported(msg string) unsupportedErr { return unsupportedErr{msg} }
