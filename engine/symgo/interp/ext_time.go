package interp

// time: the clock is an adversary.  time.now (the runtime hook behind time.Now) returns
// arbitrary wall-clock seconds/nanoseconds (the wall clock may step backwards) and a
// non-decreasing monotonic reading; everything above it (time.Now, Time.Add/Sub/Before/
// After/Equal, ...) is the real package code executed on those symbolic words.

import (
	"go/types"

	"symgo/smt"
)

func init() {
	for k, v := range map[string]externalFn{
		"time.now": func(fr *frame, a []value) value {
			i := fr.i
			c := i.ctx
			sec := i.nondet("time.now.sec", 64, types.Typ[types.Int64])
			nsec := i.nondet("time.now.nsec", 32, types.Typ[types.Int32])
			mono := i.nextMono()
			if st, ok := sec.(*smt.Term); ok {
				// 2001-09-09 .. 2096: inside the range where time.Now keeps the monotonic reading
				i.assume(normBool(c.And(c.Bin(smt.OBvSle, c.BV(1000000000, 64), st), c.Bin(smt.OBvSlt, st, c.BV(4000000000, 64)))))
			}
			if nt, ok := nsec.(*smt.Term); ok {
				i.assume(normBool(c.And(c.Bin(smt.OBvSle, c.BV(0, 32), nt), c.Bin(smt.OBvSlt, nt, c.BV(1000000000, 32)))))
			}
			return tuple{sec, nsec, mono}
		},
		// Time.Sub on symbolic instants: the difference without the saturation logic of the
		// real method (which needs a 64-bit remainder by 1e9 that no solver here decides);
		// exact whenever the instants are less than ~292 years apart, which the time model
		// guarantees (all symbolic instants lie in 2001..2096).  Concrete calls run the real code.
		"(time.Time).Sub": func(fr *frame, a []value) value {
			i := fr.i
			if !hasSymbolic(a[0], 0) && !hasSymbolic(a[1], 0) {
				fn := i.prog.ImportedPackage("time").Type("Time").Object()
				m := i.prog.LookupMethod(fn.Type(), fn.Pkg(), "Sub")
				return callSSAbody(i, fr.caller, m, a, nil)
			}
			tp := i.prog.ImportedPackage("time")
			tt := tp.Type("Time").Object().Type()
			pt := types.NewPointer(tt)
			secM := i.prog.LookupMethod(pt, tp.Pkg, "sec")
			nsecM := i.prog.LookupMethod(pt, tp.Pkg, "nsec")
			cellT, cellU := a[0], a[1]
			ts := call(i, fr, 0, secM, []value{&cellT})
			us := call(i, fr, 0, secM, []value{&cellU})
			tn := call(i, fr, 0, nsecM, []value{&cellT})
			un := call(i, fr, 0, nsecM, []value{&cellU})
			i64 := types.Typ[types.Int64]
			dsec := i.binop(tokenSUB, i64, ts, us)
			dn := i.binop(tokenSUB, types.Typ[types.Int32], tn, un)
			dn64 := i.conv(i64, types.Typ[types.Int32], dn)
			wall := i.binop(tokenADD, i64, i.binop(tokenMUL, i64, dsec, int64(1000000000)), dn64)
			// both monotonic: difference of the monotonic readings
			hm := uint64(1) << 63
			u64 := types.Typ[types.Uint64]
			tw, uw := a[0].(structure)[0], a[1].(structure)[0]
			both := i.binop(tokenNEQ, u64, i.binop(tokenAND, u64, i.binop(tokenAND, u64, tw, uw), hm), uint64(0))
			mono := i.binop(tokenSUB, i64, a[0].(structure)[1], a[1].(structure)[1])
			return i.iteV(i64, both, mono, wall)
		},
		"time.runtimeNano": func(fr *frame, a []value) value { return fr.i.nextMono() },
		"time.Sleep":       extNop,
		"time.runtimeNow":  func(fr *frame, a []value) value { return fr.i.nextMono() },
		"(*time.Location).get": func(fr *frame, a []value) value {
			// every location is UTC in the model
			g := fr.i.prog.ImportedPackage("time").Var("utcLoc")
			return fr.i.globalAddr(g)
		},
	} {
		externals[k] = v
	}
}

// nextMono returns a fresh monotonic clock reading >= the previous one.
func (i *interpreter) nextMono() value {
	c := i.ctx
	m := i.nondet("time.mono", 64, types.Typ[types.Int64])
	mt, ok := m.(*smt.Term)
	if !ok {
		return m
	}
	lo := c.BV(1, 64)
	if i.monoClock != nil {
		lo = i.monoClock
	}
	i.assume(normBool(c.And(c.Bin(smt.OBvSle, lo, mt), c.Bin(smt.OBvSlt, mt, c.BV(1<<62, 64)))))
	i.monoClock = mt
	return mt
}
