package interp

// time: the clock is an adversary.  time.now (the runtime hook behind time.Now) returns
// arbitrary wall-clock seconds/nanoseconds (the wall clock may step backwards) and a
// non-decreasing monotonic reading; everything above it (time.Now, Time.Add/Sub/Before/
// After/Equal, ...) is the real package code executed on those symbolic words.

import (
	"go/types"

	"symgo/smt"
)

func init() {
	for k, v := range map[string]externalFn{
		"time.now": func(fr *frame, a []value) value {
			i := fr.i
			c := i.ctx
			sec := i.nondet("time.now.sec", 64, types.Typ[types.Int64])
			nsec := i.nondet("time.now.nsec", 32, types.Typ[types.Int32])
			mono := i.nextMono()
			if st, ok := sec.(*smt.Term); ok {
				// 2001-09-09 .. 2096: inside the range where time.Now keeps the monotonic reading
				i.assume(normBool(c.And(c.Bin(smt.OBvSle, c.BV(1000000000, 64), st), c.Bin(smt.OBvSlt, st, c.BV(4000000000, 64)))))
			}
			if nt, ok := nsec.(*smt.Term); ok {
				i.assume(normBool(c.And(c.Bin(smt.OBvSle, c.BV(0, 32), nt), c.Bin(smt.OBvSlt, nt, c.BV(1000000000, 32)))))
			}
			return tuple{sec, nsec, mono}
		},
		"time.runtimeNano": func(fr *frame, a []value) value { return fr.i.nextMono() },
		"time.Sleep":       extNop,
		"time.runtimeNow":  func(fr *frame, a []value) value { return fr.i.nextMono() },
		"(*time.Location).get": func(fr *frame, a []value) value {
			// every location is UTC in the model
			g := fr.i.prog.ImportedPackage("time").Var("utcLoc")
			return fr.i.globalAddr(g)
		},
	} {
		externals[k] = v
	}
}

// nextMono returns a fresh monotonic clock reading >= the previous one.
func (i *interpreter) nextMono() value {
	c := i.ctx
	m := i.nondet("time.mono", 64, types.Typ[types.Int64])
	mt, ok := m.(*smt.Term)
	if !ok {
		return m
	}
	lo := c.BV(1, 64)
	if i.monoClock != nil {
		lo = i.monoClock
	}
	i.assume(normBool(c.And(c.Bin(smt.OBvSle, lo, mt), c.Bin(smt.OBvSlt, mt, c.BV(1<<62, 64)))))
	i.monoClock = mt
	return mt
}
