package interp

// Submatch extraction on text with symbolic bytes: a backtracking matcher over the host-compiled
// regexp/syntax program, in the priority order of Go's leftmost-first semantics.  Every byte
// test on a symbolic byte is a decision of the explorer (the path forks), so along one path the
// capture positions are concrete.  (POSIX leftmost-longest programs are not handled here.)

import (
	"regexp"
	"regexp/syntax"
	"unicode"

	"symgo/smt"
)

type reSim struct {
	i    *interpreter
	c    *smt.Ctx
	prog *syntax.Prog
	bt   []*smt.Term
	n    int
}

func (i *interpreter) newReSim(re *regexp.Regexp, text value) *reSim {
	bs := strBytes(text)
	c := i.ctx
	for _, b := range bs {
		if t, ok := b.(*smt.Term); ok {
			if !i.truth(normBool(c.Bin(smt.OBvUlt, t, c.BV(0x80, 8)))) {
				panic(endPath{PathUnsupported, "regexp match on a symbolic byte that may be non-ASCII (add an ASCII assumption to the harness)"})
			}
		} else if b.(uint8) >= 0x80 {
			panic(unsupported("regexp match on mixed symbolic/non-ASCII text"))
		}
	}
	parsed, err := syntax.Parse(re.String(), syntax.Perl)
	if err != nil {
		panic(unsupported("regexp re-parse: " + err.Error()))
	}
	prog, err := syntax.Compile(parsed.Simplify())
	if err != nil {
		panic(unsupported("regexp compile: " + err.Error()))
	}
	s := &reSim{i: i, c: c, prog: prog, n: len(bs)}
	s.bt = make([]*smt.Term, len(bs))
	for k := range bs {
		s.bt[k] = i.toTerm(bs[k])
	}
	return s
}

func (s *reSim) isWord(k int) *smt.Term {
	c := s.c
	if k < 0 || k >= s.n {
		return c.False
	}
	b := s.bt[k]
	r := c.And(c.Bin(smt.OBvUle, c.BV('a', 8), b), c.Bin(smt.OBvUle, b, c.BV('z', 8)))
	r = c.Or(r, c.And(c.Bin(smt.OBvUle, c.BV('A', 8), b), c.Bin(smt.OBvUle, b, c.BV('Z', 8))))
	r = c.Or(r, c.And(c.Bin(smt.OBvUle, c.BV('0', 8), b), c.Bin(smt.OBvUle, b, c.BV('9', 8))))
	return c.Or(r, c.Eq(b, c.BV('_', 8)))
}

func (s *reSim) emptyCond(op syntax.EmptyOp, pos int) *smt.Term {
	c := s.c
	r := c.True
	if op&syntax.EmptyBeginText != 0 {
		r = c.And(r, c.Bool(pos == 0))
	}
	if op&syntax.EmptyEndText != 0 {
		r = c.And(r, c.Bool(pos == s.n))
	}
	if op&syntax.EmptyBeginLine != 0 && pos != 0 {
		r = c.And(r, c.Eq(s.bt[pos-1], c.BV('\n', 8)))
	}
	if op&syntax.EmptyEndLine != 0 && pos != s.n {
		r = c.And(r, c.Eq(s.bt[pos], c.BV('\n', 8)))
	}
	if op&(syntax.EmptyWordBoundary|syntax.EmptyNoWordBoundary) != 0 {
		wb := c.Not(c.Eq(s.isWord(pos-1), s.isWord(pos)))
		if op&syntax.EmptyWordBoundary != 0 {
			r = c.And(r, wb)
		}
		if op&syntax.EmptyNoWordBoundary != 0 {
			r = c.And(r, c.Not(wb))
		}
	}
	return r
}

func (s *reSim) runeCond(in *syntax.Inst, b *smt.Term) *smt.Term {
	c := s.c
	switch in.Op {
	case syntax.InstRuneAny:
		return c.True
	case syntax.InstRuneAnyNotNL:
		return c.Ne(b, c.BV('\n', 8))
	}
	fold := syntax.Flags(in.Arg)&syntax.FoldCase != 0
	rs := in.Rune
	r := c.False
	addRange := func(lo, hi rune) {
		if lo > 0x7f {
			return
		}
		if hi > 0x7f {
			hi = 0x7f
		}
		if lo == hi {
			r = c.Or(r, c.Eq(b, c.BV(uint64(lo), 8)))
		} else {
			r = c.Or(r, c.And(c.Bin(smt.OBvUle, c.BV(uint64(lo), 8), b), c.Bin(smt.OBvUle, b, c.BV(uint64(hi), 8))))
		}
	}
	if len(rs) == 1 {
		addRange(rs[0], rs[0])
		if fold {
			for f := unicode.SimpleFold(rs[0]); f != rs[0]; f = unicode.SimpleFold(f) {
				addRange(f, f)
			}
		}
		return r
	}
	for k := 0; k+1 < len(rs); k += 2 {
		addRange(rs[k], rs[k+1])
	}
	return r
}

// submatchIndex returns the capture index pairs of the leftmost-first match, or nil.
func (s *reSim) submatchIndex() []int {
	ncap := s.prog.NumCap
	if ncap < 2 {
		ncap = 2
	}
	caps := make([]int, ncap)
	steps := 0
	var run func(pc, pos int, visited map[[2]int]bool) bool
	run = func(pc, pos int, visited map[[2]int]bool) bool {
		for {
			steps++
			if steps > 200000 {
				panic(unsupported("regexp submatch: backtracking budget exceeded"))
			}
			in := &s.prog.Inst[pc]
			switch in.Op {
			case syntax.InstFail:
				return false
			case syntax.InstMatch:
				caps[1] = pos
				return true
			case syntax.InstNop:
				pc = int(in.Out)
			case syntax.InstAlt, syntax.InstAltMatch:
				key := [2]int{pc, pos}
				if visited[key] {
					return false
				}
				visited[key] = true
				if run(int(in.Out), pos, visited) {
					return true
				}
				pc = int(in.Arg)
			case syntax.InstCapture:
				if int(in.Arg) < len(caps) {
					old := caps[in.Arg]
					caps[in.Arg] = pos
					if run(int(in.Out), pos, visited) {
						return true
					}
					caps[in.Arg] = old
					return false
				}
				pc = int(in.Out)
			case syntax.InstEmptyWidth:
				if !s.i.truth(normBool(s.emptyCond(syntax.EmptyOp(in.Arg), pos))) {
					return false
				}
				pc = int(in.Out)
			default: // rune instructions
				if pos >= s.n {
					return false
				}
				if !s.i.truth(normBool(s.runeCond(in, s.bt[pos]))) {
					return false
				}
				pc = int(in.Out)
				pos++
			}
		}
	}
	anchored := s.prog.StartCond()&syntax.EmptyBeginText != 0
	for start := 0; start <= s.n; start++ {
		for k := range caps {
			caps[k] = -1
		}
		caps[0] = start
		if run(s.prog.Start, start, map[[2]int]bool{}) {
			return caps
		}
		if anchored {
			break
		}
	}
	return nil
}

// reSubmatchIndex is FindStringSubmatchIndex for possibly symbolic text.
func (i *interpreter) reSubmatchIndex(re *regexp.Regexp, text value) []int {
	if s, ok := text.(string); ok {
		return re.FindStringSubmatchIndex(s)
	}
	return i.newReSim(re, text).submatchIndex()
}

// reSubmatch is FindStringSubmatch for possibly symbolic text.
func (i *interpreter) reSubmatch(re *regexp.Regexp, text value) value {
	if s, ok := text.(string); ok {
		return strSlice(re.FindStringSubmatch(s))
	}
	idx := i.reSubmatchIndex(re, text)
	if idx == nil {
		return []value(nil)
	}
	bs := strBytes(text)
	out := make([]value, len(idx)/2)
	for k := range out {
		lo, hi := idx[2*k], idx[2*k+1]
		if lo < 0 || hi < 0 {
			out[k] = ""
			continue
		}
		out[k] = mkstr(append([]value(nil), bs[lo:hi]...))
	}
	return out
}
