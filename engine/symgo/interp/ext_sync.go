package interp

// sync and sync/atomic in the sequential model: locks are no-ops (goroutines run to
// completion one at a time), atomics are plain cell accesses.

import (
	"fmt"
	"go/token"
	"go/types"
)

func atomicType(suffix string) types.Type {
	switch suffix {
	case "Int32":
		return types.Typ[types.Int32]
	case "Int64":
		return types.Typ[types.Int64]
	case "Uint32":
		return types.Typ[types.Uint32]
	case "Uint64":
		return types.Typ[types.Uint64]
	case "Uintptr":
		return types.Typ[types.Uintptr]
	}
	return nil
}

func cellOf(v value) *value {
	p, ok := v.(*value)
	if !ok || p == nil {
		panic(targetPanic{iface{nil, "runtime error: atomic operation on nil pointer"}})
	}
	return p
}

func init() {
	for _, sfx := range []string{"Int32", "Int64", "Uint32", "Uint64", "Uintptr", "Pointer"} {
		sfx := sfx
		t := atomicType(sfx)
		externals["sync/atomic.Load"+sfx] = func(fr *frame, a []value) value { return *cellOf(a[0]) }
		externals["sync/atomic.Store"+sfx] = func(fr *frame, a []value) value { *cellOf(a[0]) = a[1]; return nil }
		externals["sync/atomic.Swap"+sfx] = func(fr *frame, a []value) value {
			c := cellOf(a[0])
			old := *c
			*c = a[1]
			return old
		}
		externals["sync/atomic.CompareAndSwap"+sfx] = func(fr *frame, a []value) value {
			c := cellOf(a[0])
			var eq value
			if t != nil {
				eq = fr.i.binop(token.EQL, t, *c, a[1])
			} else {
				eq = fr.i.equalsV(types.Typ[types.UnsafePointer], *c, a[1])
			}
			if fr.i.truth(eq) {
				*c = a[2]
				return true
			}
			return false
		}
		if t != nil {
			externals["sync/atomic.Add"+sfx] = func(fr *frame, a []value) value {
				c := cellOf(a[0])
				*c = fr.i.binop(token.ADD, t, *c, a[1])
				return *c
			}
			externals["sync/atomic.And"+sfx] = func(fr *frame, a []value) value {
				c := cellOf(a[0])
				old := *c
				*c = fr.i.binop(token.AND, t, *c, a[1])
				return old
			}
			externals["sync/atomic.Or"+sfx] = func(fr *frame, a []value) value {
				c := cellOf(a[0])
				old := *c
				*c = fr.i.binop(token.OR, t, *c, a[1])
				return old
			}
		}
	}
	nop := extNop
	for k, v := range map[string]externalFn{
		"(*sync.Mutex).Lock":       nop,
		"(*sync.Mutex).Unlock":     nop,
		"(*sync.Mutex).TryLock":    func(fr *frame, a []value) value { return true },
		"(*sync.RWMutex).Lock":     nop,
		"(*sync.RWMutex).Unlock":   nop,
		"(*sync.RWMutex).RLock":    nop,
		"(*sync.RWMutex).RUnlock":  nop,
		"(*sync.RWMutex).TryLock":  func(fr *frame, a []value) value { return true },
		"(*sync.RWMutex).TryRLock": func(fr *frame, a []value) value { return true },
		"(*sync.Once).Do": func(fr *frame, a []value) value {
			p := cellOf(a[0])
			if fr.i.onceDone[p] {
				return nil
			}
			fr.i.onceDone[p] = true
			call(fr.i, fr, 0, a[1], nil)
			return nil
		},
		"(*sync.WaitGroup).Add":  nop,
		"(*sync.WaitGroup).Done": nop,
		"(*sync.WaitGroup).Wait": func(fr *frame, a []value) value {
			for fr.i.runOneGoroutine() {
			}
			return nil
		},
		"(*sync.Cond).Broadcast": func(fr *frame, a []value) value {
			fr.i.nativeState["cond.broadcast"] = true
			fr.i.condSignals++
			return nil
		},
		"(*sync.Cond).Signal": func(fr *frame, a []value) value {
			fr.i.nativeState["cond.broadcast"] = true
			fr.i.condSignals++
			return nil
		},
		"(*sync.Cond).Wait": func(fr *frame, a []value) value {
			if fr.i.runOneGoroutine() {
				return nil
			}
			panic(endPath{PathBlocked, "sync.Cond.Wait with no runnable goroutine at " + fr.i.where()})
		},
		"sync.NewCond": func(fr *frame, a []value) value {
			t := fr.i.prog.ImportedPackage("sync").Type("Cond").Object().Type()
			cell := zero(t)
			s := cell.(structure)
			// field L is the second field (noCopy, L, notify, checker)
			st := t.Underlying().(*types.Struct)
			for k := 0; k < st.NumFields(); k++ {
				if st.Field(k).Name() == "L" {
					s[k] = a[0]
				}
			}
			return &cell
		},
		"(*sync.Pool).Get": func(fr *frame, a []value) value {
			p := cellOf(a[0])
			s := (*p).(structure)
			newf := s[len(s)-1]
			if isNilRef(newf) {
				return iface{}
			}
			return call(fr.i, fr, 0, newf, nil)
		},
		"(*sync.Pool).Put": nop,
		"(*sync/atomic.Value).Load": func(fr *frame, a []value) value {
			s := (*cellOf(a[0])).(structure)
			return s[0]
		},
		"(*sync/atomic.Value).Store": func(fr *frame, a []value) value {
			s := (*cellOf(a[0])).(structure)
			s[0] = a[1]
			return nil
		},
		"(*sync/atomic.Value).Swap": func(fr *frame, a []value) value {
			s := (*cellOf(a[0])).(structure)
			old := s[0]
			s[0] = a[1]
			return old
		},
		"(*sync/atomic.Value).CompareAndSwap": func(fr *frame, a []value) value {
			s := (*cellOf(a[0])).(structure)
			o, n := s[0].(iface), a[1].(iface)
			if fr.i.truth(fr.i.equalsV(types.NewInterfaceType(nil, nil), o, n)) {
				s[0] = a[2]
				return true
			}
			return false
		},
		"sync.runtime_registerPoolCleanup": nop,
		"sync.runtime_procPin":             func(fr *frame, a []value) value { return 0 },
		"sync.runtime_procUnpin":           nop,
		"sync.fatal":                       func(fr *frame, a []value) value { panic(targetPanic{iface{nil, fmt.Sprint("fatal error: ", a[0])}}) },
	} {
		externals[k] = v
	}
}
