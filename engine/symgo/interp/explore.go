package interp

import (
	"fmt"
	"go/types"
	"os"
	"sort"
	"strings"
	"time"

	"symgo/smt"
)

// Decision is one recorded choice on a path.
type Decision struct {
	Kind byte   // 'b' branch, 'v' value
	B    bool   // branch direction
	V    uint64 // chosen value
}

func (d Decision) String() string {
	if d.Kind == 'b' {
		if d.B {
			return "T"
		}
		return "F"
	}
	return fmt.Sprintf("=%d", d.V)
}

// WorkItem is a path prefix still to be explored.
type WorkItem struct {
	Prefix []Decision
	Model  map[string]uint64 // a model of the prefix's path condition, if known
}

// PathStatus is the way a path ended.
type PathStatus int

const (
	PathOK           PathStatus = iota
	PathPruned                  // an Assume was infeasible
	PathViolation               // an Assert failed (or an uncaught panic)
	PathInconclusive            // solver could not decide an assertion
	PathUnsupported             // engine limitation hit
	PathUnwind                  // step / decision budget exceeded
	PathBlocked                 // blocking operation that cannot proceed
)

func (s PathStatus) String() string {
	return [...]string{"ok", "pruned", "violation", "inconclusive", "unsupported", "unwind", "blocked"}[s]
}

// Violation describes a failed assertion with the model that triggers it.
type Violation struct {
	Label  string
	Model  map[string]uint64
	Nondet []NondetVal
	Trace  string
	Msg    string
}

// NondetVal is one nondeterministic input with its value in a model.
type NondetVal struct {
	Name  string
	Width int
	Value uint64
}

// PathResult summarises one executed path.
type PathResult struct {
	Status     PathStatus
	Msg        string
	Decisions  []Decision
	SymBranch  int // decisions that were genuinely two-sided or value choices
	Violations []Violation
	Asserts    int // assertion queries discharged on this path
	Reached    map[string]int
	AssertHit  map[string]int
	Sample     string
	Steps      int64
	Children   []WorkItem
}

// pathState is the per-path mutable exploration state held by the interpreter.
type pathState struct {
	prefix     []Decision
	pos        int
	decisions  []Decision
	model      map[string]uint64
	modelValid bool
	itemModel  map[string]uint64 // the model that came with the work item (valid at the end of the prefix)
	symBranch  int
	children   []WorkItem
	violations []Violation
	asserts    int
	reached    map[string]int
	assertHit  map[string]int
	nondets    []*smt.Term
	nondetSeq  map[string]int
	steps      int64
	unknownBr  int
	pcLen      int
	pcSet      map[int]bool
	parent     *pathState // enclosing context of a nested (pure-call) exploration
	nested     bool
	localPC    []*smt.Term
	pcHash     uint64
	aux        *auxDefs
	memo       map[string]value // summaries of heap-independent pure calls, per path
}

// auxDefs: auxiliary solver variables introduced by the engine (quotient/remainder of a
// division by a constant) with their defining constraints.  They are functions of the
// inputs, not inputs; the definitions are (re-)asserted whenever solver frames are popped.
type auxDefs struct {
	vars []*smt.Term
	defs []*smt.Term
	seen map[string]bool
}

// vars returns every solver variable whose model value is needed.
func (p *pathState) vars() []*smt.Term {
	if p.aux == nil || len(p.aux.vars) == 0 {
		return p.nondets
	}
	return append(append([]*smt.Term(nil), p.nondets...), p.aux.vars...)
}

// reassertDefs puts the auxiliary definitions back after solver frames were popped.
func (i *interpreter) reassertDefs() {
	if i.path == nil || i.path.aux == nil {
		return
	}
	for _, d := range i.path.aux.defs {
		i.solver.Assert(d)
	}
}

// divmodConst returns terms (q, r) with x = q*c + r for a non-zero constant c, using fresh
// auxiliary variables instead of a division circuit (multiplication by a constant is cheap
// for the solvers, 64-bit division is not).
func (i *interpreter) divmodConst(x *smt.Term, cval uint64, signed bool) (*smt.Term, *smt.Term) {
	c := i.ctx
	w := x.W
	p := i.path
	if p.aux == nil {
		p.aux = &auxDefs{seen: map[string]bool{}}
	}
	if q, r, ok := i.divmodOfScaledSum(x, cval, signed); ok {
		return q, r
	}
	key := fmt.Sprintf("%d/%d/%v", x.ID, cval, signed)
	q := c.Var("aux.q:"+key, w)
	r := c.Var("aux.r:"+key, w)
	if p.aux.seen[key] {
		return q, r
	}
	p.aux.seen[key] = true
	k := c.BV(cval, w)
	def := c.Eq(x, c.Bin(smt.OBvAdd, c.Bin(smt.OBvMul, q, k), r))
	if signed {
		sc := k.SignedVal()
		absC := sc
		if absC < 0 {
			absC = -absC
		}
		maxInt := int64(1)<<uint(w-1) - 1
		bound := c.BV(uint64(maxInt/absC), w)
		zero := c.BV(0, w)
		ac := c.BV(uint64(absC), w)
		nonneg := c.Bin(smt.OBvSle, zero, x)
		// remainder has the sign of the dividend and |r| < |c|
		rpos := c.And(c.Bin(smt.OBvSle, zero, r), c.Bin(smt.OBvSlt, r, ac))
		rneg := c.And(c.Bin(smt.OBvSlt, c.BvNeg(ac), r), c.Bin(smt.OBvSle, r, zero))
		def = c.And(def, c.Ite(nonneg, rpos, rneg))
		def = c.And(def, c.And(c.Bin(smt.OBvSle, c.BvNeg(bound), q), c.Bin(smt.OBvSle, q, bound)))
		// q has the sign of x/c (or is zero): excludes the spurious solution q-1, r+c for negative dividends
		if sc > 0 {
			def = c.And(def, c.Ite(nonneg, c.Bin(smt.OBvSle, zero, q), c.Bin(smt.OBvSle, q, zero)))
		} else {
			def = c.And(def, c.Ite(nonneg, c.Bin(smt.OBvSle, q, zero), c.Bin(smt.OBvSle, zero, q)))
		}
	} else {
		bound := c.BV(mask64(w)/cval, w)
		def = c.And(def, c.Bin(smt.OBvUlt, r, k))
		def = c.And(def, c.Bin(smt.OBvUle, q, bound))
	}
	p.aux.vars = append(p.aux.vars, q, r)
	p.aux.defs = append(p.aux.defs, def)
	if i.auxRegistry == nil {
		i.auxRegistry = map[string]auxEntry{}
	}
	i.auxRegistry[q.Name] = auxEntry{key: key, q: q, r: r, def: def}
	i.auxRegistry[r.Name] = auxEntry{key: key, q: q, r: r, def: def}
	i.solver.Assert(def)
	// the cached model does not know q and r
	if p.modelValid && p.model != nil {
		xv := i.evalModel(x)
		var qv, rv uint64
		if signed {
			sx := sext(xv, w)
			sc := k.SignedVal()
			qv, rv = uint64(sx/sc), uint64(sx%sc)
		} else {
			qv, rv = xv/cval, xv%cval
		}
		m := make(map[string]uint64, len(p.model)+2)
		for kk, vv := range p.model {
			m[kk] = vv
		}
		m[q.Name] = qv & mask64(w)
		m[r.Name] = rv & mask64(w)
		p.model = m
	}
	return q, r
}

type auxEntry struct {
	key  string
	q, r *smt.Term
	def  *smt.Term
}

// ensureAuxFor makes sure the definitions of all auxiliary variables occurring in v are part of
// the current path (needed when a summarised value computed on another path is reused).
func (i *interpreter) ensureAuxFor(v value) {
	if len(i.auxRegistry) == 0 {
		return
	}
	var terms []*smt.Term
	var walk func(v value, d int)
	walk = func(v value, d int) {
		if d > 4 {
			return
		}
		switch x := v.(type) {
		case *smt.Term:
			terms = append(terms, x)
		case structure:
			for _, f := range x {
				walk(f, d+1)
			}
		case array:
			for _, f := range x {
				walk(f, d+1)
			}
		case tuple:
			for _, f := range x {
				walk(f, d+1)
			}
		case sstr:
			for _, f := range x {
				walk(f, d+1)
			}
		}
	}
	walk(v, 0)
	seen := map[int]bool{}
	for len(terms) > 0 {
		t := terms[len(terms)-1]
		terms = terms[:len(terms)-1]
		var vars []*smt.Term
		smt.CollectVars(t, seen, &vars)
		for _, vr := range vars {
			e, ok := i.auxRegistry[vr.Name]
			if !ok {
				continue
			}
			p := i.path
			if p.aux == nil {
				p.aux = &auxDefs{seen: map[string]bool{}}
			}
			if p.aux.seen[e.key] {
				continue
			}
			p.aux.seen[e.key] = true
			p.aux.vars = append(p.aux.vars, e.q, e.r)
			p.aux.defs = append(p.aux.defs, e.def)
			i.solver.Assert(e.def)
			p.modelValid = false
			terms = append(terms, e.def)
		}
	}
}

// scaledParts matches x = a*c + b with a constant c > 1 (either operand order); for a constant x
// it returns the truncated quotient and remainder.
func (i *interpreter) scaledParts(x *smt.Term, cval uint64) (a, b *smt.Term, ok bool) {
	c := i.ctx
	if x.W != 64 {
		return nil, nil, false
	}
	if x.IsConst() {
		if cval == 0 {
			return nil, nil, false
		}
		sx, sc := x.SignedVal(), int64(cval)
		return c.BV(uint64(sx/sc), 64), c.BV(uint64(sx%sc), 64), true
	}
	if x.Op == smt.OBvMul {
		// a*c + 0
		if x.Args[0].IsConst() && x.Args[0].Val == cval {
			return x.Args[1], c.BV(0, 64), true
		}
		if x.Args[1].IsConst() && x.Args[1].Val == cval {
			return x.Args[0], c.BV(0, 64), true
		}
		return nil, nil, false
	}
	isZero := func(t *smt.Term) bool { return t.IsConst() && t.Val == 0 }
	switch x.Op {
	case smt.OBvAdd, smt.OBvSub:
		// sums and differences of scaled values where at most one side has a fractional part
		a1, b1, ok1 := i.scaledParts(x.Args[0], cval)
		a2, b2, ok2 := i.scaledParts(x.Args[1], cval)
		if ok1 && ok2 && (isZero(b1) || isZero(b2)) {
			if x.Op == smt.OBvAdd {
				return c.Bin(smt.OBvAdd, a1, a2), c.Bin(smt.OBvAdd, b1, b2), true
			}
			return c.Bin(smt.OBvSub, a1, a2), c.Bin(smt.OBvSub, b1, b2), true
		}
		if x.Op == smt.OBvAdd {
			// a*c + b with b an arbitrary (small) term
			for k := 0; k < 2; k++ {
				m, o := x.Args[k], x.Args[1-k]
				if m.Op == smt.OBvMul {
					if m.Args[0].IsConst() && m.Args[0].Val == cval {
						return m.Args[1], o, true
					}
					if m.Args[1].IsConst() && m.Args[1].Val == cval {
						return m.Args[0], o, true
					}
				}
			}
		}
	}
	return nil, nil, false
}

// scaleConstOf returns the constant c if x has the shape a*c + b.
func scaleConstOf(x *smt.Term) (uint64, bool) {
	if x.W != 64 {
		return 0, false
	}
	switch x.Op {
	case smt.OBvMul:
		if x.Args[0].IsConst() && int64(x.Args[0].Val) > 1<<16 {
			return x.Args[0].Val, true
		}
		if x.Args[1].IsConst() && int64(x.Args[1].Val) > 1<<16 {
			return x.Args[1].Val, true
		}
	case smt.OBvAdd, smt.OBvSub:
		if c, ok := scaleConstOf(x.Args[0]); ok {
			return c, true
		}
		return scaleConstOf(x.Args[1])
	}
	return 0, false
}

// scaledSide: the path condition implies |b| < c and |a| small enough that a*c cannot overflow.
func (i *interpreter) scaledSide(a, b *smt.Term, cval uint64) bool {
	c := i.ctx
	k := c.BV(cval, 64)
	lim := c.BV(uint64((int64(1)<<62)/int64(cval)), 64)
	side := c.And(c.And(c.Bin(smt.OBvSlt, c.BvNeg(k), b), c.Bin(smt.OBvSlt, b, k)),
		c.And(c.Bin(smt.OBvSle, c.BvNeg(lim), a), c.Bin(smt.OBvSle, a, lim)))
	if side.IsTrue() {
		return true
	}
	key := fmt.Sprintf("%d|%x", side.ID, i.path.pcHash)
	if v, ok := i.sideCache[key]; ok {
		return v
	}
	res, _ := i.solverCheck(c.Not(side), false, nil)
	if i.sideCache == nil || len(i.sideCache) > 100000 {
		i.sideCache = map[string]bool{}
	}
	i.sideCache[key] = res == smt.Unsat
	return res == smt.Unsat
}

// compareScaled decides x < y, x <= y or x == y (signed) for two values of the shape a*c + b
// without inverting the multiplications: with d = a1-a2 and e = b2-b1 (|e| < 2c) the comparison
// only depends on d in {<=-2, -1, 0, 1, >=2} and on e against -c, 0, c.
func (i *interpreter) compareScaled(op string, x, y *smt.Term) (*smt.Term, bool) {
	cval, ok := scaleConstOf(x)
	if !ok {
		cval, ok = scaleConstOf(y)
	}
	if !ok {
		return nil, false
	}
	a1, b1, ok1 := i.scaledParts(x, cval)
	a2, b2, ok2 := i.scaledParts(y, cval)
	if !ok1 || !ok2 || !i.scaledSide(a1, b1, cval) || !i.scaledSide(a2, b2, cval) {
		return nil, false
	}
	c := i.ctx
	d := c.Bin(smt.OBvSub, a1, a2)
	e := c.Bin(smt.OBvSub, b2, b1)
	k := c.BV(cval, 64)
	nk := c.BvNeg(k)
	zero := c.BV(0, 64)
	dIs := func(v int64) *smt.Term { return c.Eq(d, c.BV(uint64(v), 64)) }
	switch op {
	case "lt":
		r := c.Bin(smt.OBvSle, d, c.BvNeg(c.BV(2, 64)))
		r = c.Or(r, c.And(dIs(-1), c.Bin(smt.OBvSlt, nk, e)))
		r = c.Or(r, c.And(dIs(0), c.Bin(smt.OBvSlt, zero, e)))
		r = c.Or(r, c.And(dIs(1), c.Bin(smt.OBvSlt, k, e)))
		return r, true
	case "le":
		r := c.Bin(smt.OBvSle, d, c.BvNeg(c.BV(2, 64)))
		r = c.Or(r, c.And(dIs(-1), c.Bin(smt.OBvSle, nk, e)))
		r = c.Or(r, c.And(dIs(0), c.Bin(smt.OBvSle, zero, e)))
		r = c.Or(r, c.And(dIs(1), c.Bin(smt.OBvSle, k, e)))
		return r, true
	case "eq":
		r := c.And(dIs(0), c.Eq(e, zero))
		r = c.Or(r, c.And(dIs(1), c.Eq(e, k)))
		r = c.Or(r, c.And(dIs(-1), c.Eq(e, nk)))
		return r, true
	}
	return nil, false
}

// divmodOfScaledSum handles x = a*c + b (the shape of a time.Duration built from a seconds and
// a nanoseconds difference) divided by the same constant c: when the path condition implies
// |b| < c and that a*c cannot overflow, quotient and remainder are a and b up to a carry of one,
// with no multiplication to invert.  The two side conditions are discharged by the solver.
func (i *interpreter) divmodOfScaledSum(x *smt.Term, cval uint64, signed bool) (*smt.Term, *smt.Term, bool) {
	if !signed || (x.Op != smt.OBvAdd && x.Op != smt.OBvMul && x.Op != smt.OBvSub) || x.W != 64 || int64(cval) <= 1 {
		return nil, nil, false
	}
	c := i.ctx
	a, b, ok := i.scaledParts(x, cval)
	if !ok || !i.scaledSide(a, b, cval) {
		return nil, nil, false
	}
	w := 64
	k := c.BV(cval, w)
	zero := c.BV(0, w)
	one := c.BV(1, w)
	// truncated division of n = a*c + b with |b| < c
	nNonNeg := c.Bin(smt.OBvSle, zero, x)
	bNeg := c.Bin(smt.OBvSlt, b, zero)
	bPos := c.Bin(smt.OBvSlt, zero, b)
	borrow := c.And(nNonNeg, bNeg)       // q = a-1, r = b+c
	carry := c.And(c.Not(nNonNeg), bPos) // q = a+1, r = b-c
	q := c.Ite(borrow, c.Bin(smt.OBvSub, a, one), c.Ite(carry, c.Bin(smt.OBvAdd, a, one), a))
	r := c.Ite(borrow, c.Bin(smt.OBvAdd, b, k), c.Ite(carry, c.Bin(smt.OBvSub, b, k), b))
	return q, r, true
}

func mask64(w int) uint64 {
	if w >= 64 {
		return ^uint64(0)
	}
	return uint64(1)<<uint(w) - 1
}

func sext(v uint64, w int) int64 {
	if w >= 64 {
		return int64(v)
	}
	sh := uint(64 - w)
	return int64(v<<sh) >> sh
}

// endPath is the panic payload used to terminate the current path.
type endPath struct {
	status PathStatus
	msg    string
}

func (i *interpreter) ensureModel() {
	p := i.path
	if p.modelValid {
		return
	}
	res, m := i.solverCheck(nil, true, p.vars())
	switch res {
	case smt.Sat:
		p.model = m
		p.modelValid = true
	case smt.Unsat:
		// the path condition is infeasible: can only happen after an unknown-branch was kept.
		panic(endPath{PathPruned, "path condition infeasible"})
	default:
		panic(endPath{PathInconclusive, "solver could not find a model of the path condition"})
	}
}

func (i *interpreter) evalModel(t *smt.Term) uint64 {
	return i.ctx.Eval(t, i.path.model)
}

func (i *interpreter) assertPC(t *smt.Term) {
	i.solver.Assert(t)
	i.path.pcLen++
	if i.path.pcSet == nil {
		i.path.pcSet = map[int]bool{}
	}
	i.path.pcSet[t.ID] = true
	i.path.pcHash = (i.path.pcHash ^ uint64(t.ID+1)) * 1099511628211
	if i.path.nested {
		i.path.localPC = append(i.path.localPC, t)
	}
	// conjunctions: record the conjuncts too
	if t.Op == smt.OAnd {
		for _, a := range t.Args {
			i.path.pcSet[a.ID] = true
		}
	}
}

// truth turns a bool-or-term into a concrete bool, forking when both outcomes are feasible.
func (i *interpreter) truth(v value) bool {
	switch v := v.(type) {
	case bool:
		return v
	case *smt.Term:
		if v.IsConst() {
			return v.Val != 0
		}
		return i.decide(v)
	}
	panic(fmt.Sprintf("truth: %T", v))
}

// inPC reports whether t is a conjunct of the current (or an enclosing) path condition.
func (p *pathState) inPC(id int) bool {
	for q := p; q != nil; q = q.parent {
		if q.pcSet[id] {
			return true
		}
	}
	return false
}

var debugSlow = os.Getenv("SYMGO_SLOW") != ""

func (i *interpreter) solverCheck(extra *smt.Term, wantModel bool, vars []*smt.Term) (smt.Result, map[string]uint64) {
	if !debugSlow {
		return i.solver.Check(extra, wantModel, vars)
	}
	tq := time.Now()
	res, m := i.solver.Check(extra, wantModel, vars)
	if time.Since(tq) > 1500*time.Millisecond {
		fmt.Fprintf(os.Stderr, "slow check %.1fs (%v) at %s\n", time.Since(tq).Seconds(), res, i.where())
	}
	return res, m
}

func (i *interpreter) decide(cond *smt.Term) bool {
	p := i.path
	if p.inPC(cond.ID) {
		return true
	}
	if p.inPC(i.ctx.Not(cond).ID) {
		return false
	}
	if i.noFork {
		panic(unsupported("symbolic branch inside a no-fork region"))
	}
	if p.pos < len(p.prefix) {
		d := p.prefix[p.pos]
		if d.Kind != 'b' {
			panic(fmt.Sprintf("replay divergence: expected branch decision at %d, have %v", p.pos, d))
		}
		p.pos++
		p.decisions = append(p.decisions, d)
		if d.B {
			i.assertPC(cond)
		} else {
			i.assertPC(i.ctx.Not(cond))
		}
		// a model obtained in the middle of the prefix (ensureModel) only satisfies the path
		// condition up to that point; the work item's model is valid once the prefix is done
		if p.pos == len(p.prefix) {
			p.model, p.modelValid = p.itemModel, p.itemModel != nil
		} else {
			p.modelValid = false
		}
		return d.B
	}
	if len(p.decisions) >= i.opts.MaxDecisions {
		panic(endPath{PathUnwind, fmt.Sprintf("more than %d decisions on one path", i.opts.MaxDecisions)})
	}
	i.ensureModel()
	mv := i.evalModel(cond) != 0
	other := cond
	if mv {
		other = i.ctx.Not(cond)
	}
	res, m2 := i.solverCheck(other, true, p.vars())
	otherFeasible := res != smt.Unsat
	if res == smt.Unknown {
		p.unknownBr++
		m2 = nil
	}
	// which side to follow now: the model's side, except in nested (merged) explorations
	// where the order must not depend on the model (true first), so that the merged term
	// is the same on every re-execution
	take := mv
	takeModel, altModel := p.model, m2
	if p.nested && otherFeasible && !mv {
		take = true
		takeModel, altModel = m2, p.model
	}
	if otherFeasible {
		alt := append(append([]Decision(nil), p.decisions...), Decision{Kind: 'b', B: !take})
		p.children = append(p.children, WorkItem{Prefix: alt, Model: altModel})
		p.symBranch++
	}
	p.decisions = append(p.decisions, Decision{Kind: 'b', B: take})
	p.pos++
	if take {
		i.assertPC(cond)
	} else {
		i.assertPC(i.ctx.Not(cond))
	}
	if takeModel == nil {
		p.model, p.modelValid = nil, false
	} else {
		p.model, p.modelValid = takeModel, true
	}
	return take
}

// concretize picks a concrete value for x, forking over all feasible values (bounded).
func (i *interpreter) concretize(x *smt.Term, t types.Type) value {
	if x.IsConst() {
		return fromConst(t, x)
	}
	p := i.path
	if i.noFork {
		panic(unsupported("concretisation inside a no-fork region"))
	}
	if p.pos < len(p.prefix) {
		d := p.prefix[p.pos]
		if d.Kind != 'v' {
			panic(fmt.Sprintf("replay divergence: expected value decision at %d, have %v", p.pos, d))
		}
		p.pos++
		p.decisions = append(p.decisions, d)
		cv := i.ctx.BV(d.V, x.W)
		if x.W == 0 {
			cv = i.ctx.Bool(d.V != 0)
		}
		i.assertPC(i.ctx.Eq(x, cv))
		// a model obtained in the middle of the prefix (ensureModel) only satisfies the path
		// condition up to that point; the work item's model is valid once the prefix is done
		if p.pos == len(p.prefix) {
			p.model, p.modelValid = p.itemModel, p.itemModel != nil
		} else {
			p.modelValid = false
		}
		return fromConst(t, cv)
	}
	i.ensureModel()
	first := i.evalModel(x)
	vals := []uint64{first}
	models := []map[string]uint64{p.model}
	// enumerate the other feasible values
	i.solver.Push()
	i.solver.Assert(i.ctx.Ne(x, i.ctx.BV(first, x.W)))
	for {
		if len(vals) > i.opts.MaxConcretize {
			i.solver.Pop()
			panic(endPath{PathUnsupported, fmt.Sprintf("symbolic value %s has more than %d feasible values where a concrete one is needed (%s)", x, i.opts.MaxConcretize, i.where())})
		}
		res, m := i.solverCheck(nil, true, append(p.vars(), termVars(x)...))
		if res == smt.Unsat {
			break
		}
		if res == smt.Unknown {
			i.solver.Pop()
			panic(endPath{PathInconclusive, "solver unknown while enumerating values"})
		}
		v := i.ctx.Eval(x, m)
		vals = append(vals, v)
		models = append(models, m)
		i.solver.Assert(i.ctx.Ne(x, i.ctx.BV(v, x.W)))
	}
	i.solver.Pop()
	i.reassertDefs()
	for k := 1; k < len(vals); k++ {
		alt := append(append([]Decision(nil), p.decisions...), Decision{Kind: 'v', V: vals[k]})
		p.children = append(p.children, WorkItem{Prefix: alt, Model: models[k]})
	}
	if len(vals) > 1 {
		p.symBranch++
	}
	p.decisions = append(p.decisions, Decision{Kind: 'v', V: first})
	p.pos++
	cv := i.ctx.BV(first, x.W)
	i.assertPC(i.ctx.Eq(x, cv))
	return fromConst(t, cv)
}

func termVars(t *smt.Term) []*smt.Term {
	var out []*smt.Term
	smt.CollectVars(t, map[int]bool{}, &out)
	return out
}

// assume restricts the path; an infeasible assumption ends the path quietly.
func (i *interpreter) assume(v value) {
	switch c := v.(type) {
	case bool:
		if !c {
			panic(endPath{PathPruned, "assume(false)"})
		}
		return
	case *smt.Term:
		p := i.path
		if p.pos < len(p.prefix) {
			// on a replayed prefix the assumption was feasible before
			i.assertPC(c)
			return
		}
		i.ensureModel()
		if i.evalModel(c) != 0 {
			i.assertPC(c)
			return
		}
		res, m := i.solverCheck(c, true, p.vars())
		switch res {
		case smt.Sat:
			i.assertPC(c)
			p.model = m
		case smt.Unsat:
			panic(endPath{PathPruned, "assumption infeasible"})
		default:
			i.assertPC(c)
			p.modelValid = false
			p.model = nil
			p.unknownBr++
		}
		return
	}
	panic(fmt.Sprintf("assume: %T", v))
}

// check is an assertion: the solver is asked for a model of PC ∧ ¬c.
func (i *interpreter) check(v value, label string) {
	p := i.path
	p.assertHit[label]++
	switch c := v.(type) {
	case bool:
		// decided by the path condition alone: counts as an evaluated obligation when the
		// path has solver-decided branches
		if p.symBranch > 0 || len(p.decisions) > 0 {
			p.asserts++
		}
		if !c {
			i.ensureModel()
			i.recordViolation(label, p.model, "assertion is concretely false on this path")
			panic(endPath{PathViolation, label})
		}
		return
	case *smt.Term:
		p.asserts++
		res, m := i.solverCheck(i.ctx.Not(c), true, p.vars())
		switch res {
		case smt.Unsat:
			// holds on this path for every value; nothing to add
			return
		case smt.Sat:
			i.recordViolation(label, m, "")
			if i.opts.StopAtFirstViolation {
				panic(endPath{PathViolation, label})
			}
			// continue the path under the assertion, to find independent violations
			i.assume(c)
			return
		default:
			panic(endPath{PathInconclusive, "assertion " + label + ": solver returned unknown"})
		}
	}
	panic(fmt.Sprintf("check: %T", v))
}

func (i *interpreter) recordViolation(label string, model map[string]uint64, msg string) {
	p := i.path
	v := Violation{Label: label, Model: model, Msg: msg, Trace: i.where()}
	for _, nd := range p.nondets {
		v.Nondet = append(v.Nondet, NondetVal{Name: nd.Name, Width: nd.W, Value: model[nd.Name]})
	}
	p.violations = append(p.violations, v)
}

// newNondet creates (or, on re-execution, re-creates) the nondeterministic input with this name.
func (i *interpreter) newNondet(name string, w int) *smt.Term {
	p := i.path
	n := p.nondetSeq[name]
	p.nondetSeq[name] = n + 1
	full := name
	if n > 0 {
		full = fmt.Sprintf("%s#%d", name, n)
	}
	t := i.ctx.Var(full, w)
	p.nondets = append(p.nondets, t)
	return t
}

// where renders the interpreted call stack.
func (i *interpreter) where() string {
	var sb strings.Builder
	n := 0
	for fr := i.curFrame; fr != nil && n < 12; fr = fr.caller {
		pos := ""
		if fr.curInstr != nil && fr.curInstr.Pos().IsValid() {
			pos = i.prog.Fset.Position(fr.curInstr.Pos()).String()
		}
		fmt.Fprintf(&sb, "%s (%s); ", fr.fn.String(), pos)
		n++
	}
	return sb.String()
}

func sampleOf(p *pathState, ctx *smt.Ctx) string {
	var parts []string
	if p.model != nil {
		for _, nd := range p.nondets {
			parts = append(parts, fmt.Sprintf("%s=%d", nd.Name, p.model[nd.Name]))
		}
		sort.Strings(parts)
	}
	var ds strings.Builder
	for _, d := range p.decisions {
		ds.WriteString(d.String())
	}
	s := strings.Join(parts, " ")
	if len(s) > 400 {
		s = s[:400] + "…"
	}
	dd := ds.String()
	if len(dd) > 120 {
		dd = dd[:120] + "…"
	}
	return "decisions=" + dd + " model: " + s
}
