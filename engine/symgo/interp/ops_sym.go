package interp

import (
	"bytes"
	"fmt"
	"go/token"
	"go/types"
	"os"
	"unicode/utf8"
	"unsafe"

	"golang.org/x/tools/go/ssa"

	"symgo/smt"
)

// ---- operators with symbolic dispatch ----

func (i *interpreter) binop(op token.Token, t types.Type, x, y value) value {
	_, xs := x.(*smt.Term)
	_, ys := y.(*smt.Term)
	if xs || ys {
		return i.symBinop(op, t, x, y)
	}
	// strings with symbolic bytes
	_, xss := x.(sstr)
	_, yss := y.(sstr)
	if xss || yss {
		switch op {
		case token.ADD:
			return mkstr(append(append([]value(nil), strBytes(x)...), strBytes(y)...))
		case token.EQL:
			return i.equalsV(t, x, y)
		case token.NEQ:
			return i.notV(i.equalsV(t, x, y))
		case token.LSS:
			return i.strLess(x, y, false)
		case token.LEQ:
			return i.strLess(x, y, true)
		case token.GTR:
			return i.strLess(y, x, false)
		case token.GEQ:
			return i.strLess(y, x, true)
		}
		panic(unsupported(fmt.Sprintf("string op %s on symbolic strings", op)))
	}
	return concBinop(i, op, t, x, y)
}

func (i *interpreter) unop(instr *ssa.UnOp, x value) value {
	if xt, ok := x.(*smt.Term); ok {
		return i.symUnop(instr.Op, instr.X.Type(), xt)
	}
	return concUnop(i, instr, x)
}

func (i *interpreter) conv(tdst, tsrc types.Type, x value) value {
	switch x := x.(type) {
	case *smt.Term:
		return i.symConv(tdst, tsrc, x)
	case sstr:
		switch ut := tdst.Underlying().(type) {
		case *types.Basic:
			if ut.Kind() == types.String {
				return x
			}
		case *types.Slice:
			switch ut.Elem().Underlying().(*types.Basic).Kind() {
			case types.Byte:
				return append([]value(nil), []value(x)...)
			case types.Rune:
				var out []value
				it := &sstrIter{i: i, s: x}
				for {
					t := it.next()
					if !t[0].(bool) {
						return out
					}
					out = append(out, t[2])
				}
			}
		}
		panic(unsupported(fmt.Sprintf("conversion of symbolic string to %s", tdst)))
	case []value:
		// []byte / []rune -> string with symbolic elements
		if ub, ok := tdst.Underlying().(*types.Basic); ok && ub.Kind() == types.String {
			sym := false
			for _, e := range x {
				if isTerm(e) {
					sym = true
					break
				}
			}
			if sym {
				ts := tsrc.Underlying().(*types.Slice)
				if ts.Elem().Underlying().(*types.Basic).Kind() == types.Byte {
					return mkstr(append([]value(nil), x...))
				}
				// []rune with symbolic runes: ASCII only
				out := make([]value, 0, len(x))
				for _, e := range x {
					if r, ok := e.(int32); ok {
						var buf [4]byte
						n := utf8.EncodeRune(buf[:], r)
						for k := 0; k < n; k++ {
							out = append(out, buf[k])
						}
						continue
					}
					s := i.symConv(tdst, types.Typ[types.Rune], e.(*smt.Term))
					out = append(out, strBytes(s)...)
				}
				return mkstr(out)
			}
		}
	}
	return concConv(tdst, tsrc, x)
}

// ---- slicing and indexing ----

func (i *interpreter) slice(instr *ssa.Slice, x, lo, hi, max value) value {
	var Len, Cap int
	switch x := x.(type) {
	case string:
		Len = len(x)
	case sstr:
		Len = len(x)
	case []value:
		Len = len(x)
		Cap = cap(x)
	case *value: // *array
		if x == nil {
			panic(targetPanic{i.runtimeErr("invalid memory address or nil pointer dereference")})
		}
		a := (*x).(array)
		Len = len(a)
		Cap = cap(a)
	}

	// string[lo:hi] with symbolic bounds but a provably constant length: build the bytes as
	// ite-chains instead of forking on the offset (strings are immutable, so no aliasing issue)
	if isStr(x) && max == nil {
		_, los := lo.(*smt.Term)
		_, his := hi.(*smt.Term)
		if los || (his && lo != nil) {
			if r, ok := i.symSubstring(x, lo, hi); ok {
				return r
			}
		}
	}
	l := int64(0)
	if lo != nil {
		l = i.asIndex(lo, instr.Low.Type())
	}
	h := int64(Len)
	if hi != nil {
		h = i.asIndex(hi, instr.High.Type())
	}
	m := int64(Cap)
	if max != nil {
		m = i.asIndex(max, instr.Max.Type())
	}
	oob := func() {
		panic(targetPanic{i.runtimeErr(fmt.Sprintf("slice bounds out of range [%d:%d] with capacity %d", l, h, Cap))})
	}
	switch x := x.(type) {
	case string:
		if l < 0 || h < l || h > int64(Len) {
			Cap = Len
			oob()
		}
		return x[l:h]
	case sstr:
		if l < 0 || h < l || h > int64(Len) {
			Cap = Len
			oob()
		}
		return mkstr([]value(x[l:h]))
	case []value:
		if l < 0 || h < l || m < h || m > int64(Cap) {
			oob()
		}
		return x[l:h:m]
	case *value: // *array
		a := (*x).(array)
		if l < 0 || h < l || m < h || m > int64(Cap) {
			oob()
		}
		return []value(a)[l:h:m]
	}
	panic(fmt.Sprintf("slice: unexpected X type: %T", x))
}

// symPtr is the address of elems[idx] for a symbolic idx already known to be in range.
type symPtr struct {
	elems []value
	idx   *smt.Term
	elemT types.Type
}

const symPtrMax = 512

func scalarType(t types.Type) bool {
	b, ok := t.Underlying().(*types.Basic)
	if !ok {
		return false
	}
	return b.Info()&(types.IsInteger|types.IsBoolean) != 0
}

func (i *interpreter) boundsCheck(idx *smt.Term, n int, it types.Type) {
	c := i.ctx
	_, signed, _ := intInfo(it)
	x := c.Resize(idx, 64, signed)
	inb := c.Bin(smt.OBvUlt, x, c.BV(uint64(n), 64))
	if !i.truth(normBool(inb)) {
		panic(targetPanic{i.runtimeErr(fmt.Sprintf("index out of range [symbolic] with length %d", n))})
	}
}

func (i *interpreter) indexAddr(instr *ssa.IndexAddr, x, idx value) value {
	var elems []value
	var elemT types.Type
	switch x := x.(type) {
	case []value:
		elems = x
		elemT = instr.X.Type().Underlying().(*types.Slice).Elem()
	case *value: // *array
		if x == nil {
			panic(targetPanic{i.runtimeErr("invalid memory address or nil pointer dereference")})
		}
		elems = (*x).(array)
		elemT = deref(instr.X.Type()).Underlying().(*types.Array).Elem()
	default:
		panic(fmt.Sprintf("unexpected x type in IndexAddr: %T", x))
	}
	if it, ok := idx.(*smt.Term); ok {
		i.boundsCheck(it, len(elems), instr.Index.Type())
		if scalarType(elemT) && len(elems) <= symPtrMax {
			_, signed, _ := intInfo(instr.Index.Type())
			return &symPtr{elems: elems, idx: i.ctx.Resize(it, 64, signed), elemT: elemT}
		}
		if loadOnly(instr) {
			if p := i.groupedElem(elems, it, instr.Index.Type()); p != nil {
				return p
			}
		}
		k := i.asIndex(idx, instr.Index.Type())
		return &elems[k]
	}
	k := asInt64(idx)
	if k < 0 || k >= int64(len(elems)) {
		panic(targetPanic{i.runtimeErr(fmt.Sprintf("index out of range [%d] with length %d", k, len(elems)))})
	}
	return &elems[k]
}

// loadOnly: the address computed by instr is only ever loaded from.
func loadOnly(instr *ssa.IndexAddr) bool {
	refs := instr.Referrers()
	if refs == nil || len(*refs) == 0 {
		return false
	}
	for _, r := range *refs {
		u, ok := r.(*ssa.UnOp)
		if !ok || u.Op != token.MUL {
			return false
		}
	}
	return true
}

// groupedElem handles table[idx] for a symbolic idx and non-scalar elements (slices, strings,
// pointers): indices holding the same element are grouped, and the path forks once per distinct
// element instead of once per index.
func (i *interpreter) groupedElem(elems []value, idx *smt.Term, it types.Type) *value {
	if len(elems) > 1024 {
		return nil
	}
	type group struct {
		first int
		idxs  []int
	}
	var order []string
	groups := map[string]*group{}
	for k, e := range elems {
		var key string
		switch x := e.(type) {
		case []value:
			if x == nil || len(x) == 0 {
				key = fmt.Sprintf("s:nil:%v", x == nil)
			} else {
				key = fmt.Sprintf("s:%p:%d", &x[0], len(x))
			}
		case string:
			key = "str:" + x
		case *value:
			key = fmt.Sprintf("p:%p", x)
		case iface:
			if x.t != nil {
				return nil
			}
			key = "iface:nil"
		default:
			return nil
		}
		g := groups[key]
		if g == nil {
			g = &group{first: k}
			groups[key] = g
			order = append(order, key)
		}
		g.idxs = append(g.idxs, k)
	}
	if len(order) > 32 {
		return nil
	}
	c := i.ctx
	_, signed, _ := intInfo(it)
	x := c.Resize(idx, 64, signed)
	// smallest groups first, the largest group is the default
	largest := order[0]
	for _, k := range order {
		if len(groups[k].idxs) > len(groups[largest].idxs) {
			largest = k
		}
	}
	for _, k := range order {
		if k == largest {
			continue
		}
		g := groups[k]
		cond := c.False
		for _, ix := range g.idxs {
			cond = c.Or(cond, c.Eq(x, c.BV(uint64(ix), 64)))
		}
		if i.truth(normBool(cond)) {
			return &elems[g.first]
		}
	}
	return &elems[groups[largest].first]
}

func (i *interpreter) symLoad(p *symPtr, t types.Type) value {
	c := i.ctx
	// all elements equal and concrete? then no ite needed
	var acc *smt.Term
	for k := len(p.elems) - 1; k >= 0; k-- {
		e := i.toTerm(p.elems[k])
		if acc == nil {
			acc = e
			continue
		}
		acc = c.Ite(c.Eq(p.idx, c.BV(uint64(k), 64)), e, acc)
	}
	if acc.W == 0 {
		return normBool(acc)
	}
	return norm(t, acc)
}

func (i *interpreter) symStore(p *symPtr, t types.Type, v value) {
	c := i.ctx
	nv := i.toTerm(v)
	for k := range p.elems {
		old := i.toTerm(p.elems[k])
		r := c.Ite(c.Eq(p.idx, c.BV(uint64(k), 64)), nv, old)
		if r.W == 0 {
			p.elems[k] = normBool(r)
		} else {
			p.elems[k] = norm(t, r)
		}
	}
}

func (i *interpreter) index(instr *ssa.Index, x, idx value) value {
	switch x := x.(type) {
	case array:
		if it, ok := idx.(*smt.Term); ok {
			i.boundsCheck(it, len(x), instr.Index.Type())
			elemT := instr.X.Type().Underlying().(*types.Array).Elem()
			if scalarType(elemT) && len(x) <= symPtrMax {
				_, signed, _ := intInfo(instr.Index.Type())
				return i.symLoad(&symPtr{elems: x, idx: i.ctx.Resize(it, 64, signed), elemT: elemT}, elemT)
			}
		}
		k := i.asIndex(idx, instr.Index.Type())
		if k < 0 || k >= int64(len(x)) {
			panic(targetPanic{i.runtimeErr(fmt.Sprintf("index out of range [%d] with length %d", k, len(x)))})
		}
		return x[k]
	case string, sstr:
		n := strLen(x)
		if it, ok := idx.(*smt.Term); ok {
			i.boundsCheck(it, n, instr.Index.Type())
			if n <= symPtrMax {
				_, signed, _ := intInfo(instr.Index.Type())
				return i.symLoad(&symPtr{elems: strBytes(x), idx: i.ctx.Resize(it, 64, signed)}, types.Typ[types.Uint8])
			}
		}
		k := i.asIndex(idx, instr.Index.Type())
		if k < 0 || k >= int64(n) {
			panic(targetPanic{i.runtimeErr(fmt.Sprintf("index out of range [%d] with length %d", k, n))})
		}
		if s, ok := x.(string); ok {
			return s[k]
		}
		return x.(sstr)[k]
	}
	panic(fmt.Sprintf("unexpected x type in Index: %T", x))
}

// lookup returns x[idx] where x is a map.
func (i *interpreter) lookup(instr *ssa.Lookup, x, idx value) value {
	switch x := x.(type) {
	case *omap:
		v, ok := i.mapLookup(x, idx)
		if !ok {
			v = zero(instr.X.Type().Underlying().(*types.Map).Elem())
		} else {
			// map elements are values: copy aggregates
			cell := v
			v = load(instr.X.Type().Underlying().(*types.Map).Elem(), &cell)
		}
		if instr.CommaOk {
			return tuple{v, ok}
		}
		return v
	}
	panic(fmt.Sprintf("unexpected x type in Lookup: %T", x))
}

// ---- iteration ----

type stringIter struct {
	s string
	i int
}

func (it *stringIter) next() tuple {
	if it.i >= len(it.s) {
		return tuple{false, nil, nil}
	}
	r, n := utf8.DecodeRuneInString(it.s[it.i:])
	t := tuple{true, it.i, r}
	it.i += n
	return t
}

type sstrIter struct {
	i   *interpreter
	s   sstr
	pos int
}

func (it *sstrIter) next() tuple {
	if it.pos >= len(it.s) {
		return tuple{false, nil, nil}
	}
	b := it.s[it.pos]
	if c, ok := b.(uint8); ok {
		if c < utf8.RuneSelf {
			t := tuple{true, it.pos, rune(c)}
			it.pos++
			return t
		}
		// concrete lead byte: need concrete continuation bytes
		var buf []byte
		for k := it.pos; k < len(it.s) && k < it.pos+4; k++ {
			cb, ok := it.s[k].(uint8)
			if !ok {
				cb = uint8(asInt64(it.i.concretize(it.s[k].(*smt.Term), types.Typ[types.Uint8])))
			}
			buf = append(buf, cb)
		}
		r, n := utf8.DecodeRune(buf)
		t := tuple{true, it.pos, r}
		it.pos += n
		return t
	}
	bt := b.(*smt.Term)
	c := it.i.ctx
	if it.i.truth(normBool(c.Bin(smt.OBvUlt, bt, c.BV(0x80, 8)))) {
		t := tuple{true, it.pos, norm(types.Typ[types.Int32], c.Zext(bt, 32))}
		it.pos++
		return t
	}
	panic(endPath{PathUnsupported, "range over a string whose symbolic byte may be non-ASCII (add an ASCII assumption to the harness)"})
}

func (i *interpreter) rangeIter(x value, t types.Type) iter {
	switch x := x.(type) {
	case *omap:
		return i.mapRange(x)
	case string:
		return &stringIter{s: x}
	case sstr:
		return &sstrIter{i: i, s: x}
	}
	panic(fmt.Sprintf("cannot range over %T", x))
}

// ---- channels (sequential model) ----

type channel struct {
	buf    []value
	cap    int
	closed bool
}

func (i *interpreter) chanSend(ch *channel, v value) {
	if ch == nil {
		panic(endPath{PathBlocked, "send on nil channel"})
	}
	if ch.closed {
		panic(targetPanic{iface{i.runtimeErrorString, "send on closed channel"}})
	}
	// sequential model: a send never blocks (an unbuffered send is taken to rendezvous later)
	ch.buf = append(ch.buf, v)
}

func (i *interpreter) chanRecv(ch *channel, elemT types.Type) (value, bool) {
	for {
		if ch == nil {
			panic(endPath{PathBlocked, "receive from nil channel"})
		}
		if len(ch.buf) > 0 {
			v := ch.buf[0]
			ch.buf = ch.buf[1:]
			return v, true
		}
		if ch.closed {
			return zero(elemT), false
		}
		// nothing to receive: let a queued goroutine run, else the path is blocked
		if !i.runOneGoroutine() {
			panic(endPath{PathBlocked, "receive on empty channel with no runnable goroutine at " + i.where()})
		}
	}
}

// runOneGoroutine runs the oldest queued goroutine to completion.
func (i *interpreter) runOneGoroutine() bool {
	for _, g := range i.goq {
		if !g.done {
			g.done = true
			call(i, nil, g.pos, g.fn, g.args)
			return true
		}
	}
	return false
}

func (i *interpreter) selectStmt(fr *frame, instr *ssa.Select) value {
	// choose the first ready case in source order (deterministic); default if none
	for attempt := 0; ; attempt++ {
		for k, st := range instr.States {
			ch, _ := fr.get(st.Chan).(*channel)
			if ch == nil {
				continue
			}
			if st.Dir == types.RecvOnly {
				if len(ch.buf) > 0 || ch.closed {
					v, ok := i.chanRecv(ch, st.Chan.Type().Underlying().(*types.Chan).Elem())
					r := tuple{k, ok}
					for j, st2 := range instr.States {
						if st2.Dir == types.RecvOnly {
							if j == k {
								r = append(r, v)
							} else {
								r = append(r, zero(st2.Chan.Type().Underlying().(*types.Chan).Elem()))
							}
						}
					}
					return r
				}
			} else {
				if !ch.closed && (len(ch.buf) < ch.cap) {
					i.chanSend(ch, fr.get(st.Send))
					r := tuple{k, false}
					for _, st2 := range instr.States {
						if st2.Dir == types.RecvOnly {
							r = append(r, zero(st2.Chan.Type().Underlying().(*types.Chan).Elem()))
						}
					}
					return r
				}
			}
		}
		if !instr.Blocking {
			r := tuple{-1, false}
			for _, st2 := range instr.States {
				if st2.Dir == types.RecvOnly {
					r = append(r, zero(st2.Chan.Type().Underlying().(*types.Chan).Elem()))
				}
			}
			return r
		}
		if !i.runOneGoroutine() {
			panic(endPath{PathBlocked, "blocking select with no ready case at " + i.where()})
		}
	}
}

// ---- builtins ----

func callBuiltin(caller *frame, callpos token.Pos, fn *ssa.Builtin, args []value) value {
	i := caller.i
	switch fn.Name() {
	case "append":
		if len(args) == 1 {
			return args[0]
		}
		if isStr(args[1]) {
			// append([]byte, ...string) []byte
			return append(args[0].([]value), strBytes(args[1])...)
		}
		// append([]T, ...[]T) []T
		return append(args[0].([]value), args[1].([]value)...)

	case "copy": // copy([]T, []T) int or copy([]byte, string) int
		src := args[1]
		if isStr(src) {
			src = strBytes(src)
		}
		return copy(args[0].([]value), src.([]value))

	case "close": // close(chan T)
		ch := args[0].(*channel)
		if ch == nil || ch.closed {
			panic(targetPanic{iface{i.runtimeErrorString, "close of nil or closed channel"}})
		}
		ch.closed = true
		return nil

	case "delete": // delete(map[K]value, K)
		i.mapDelete(args[0].(*omap), args[1])
		return nil

	case "clear":
		switch x := args[0].(type) {
		case *omap:
			if x != nil {
				x.entries = nil
				x.idx = map[interface{}]*mentry{}
				x.n, x.nsym = 0, 0
			}
		case []value:
			if len(x) > 0 {
				et := fn.Type().(*types.Signature).Params().At(0).Type().Underlying().(*types.Slice).Elem()
				for k := range x {
					x[k] = zero(et)
				}
			}
		}
		return nil

	case "print", "println": // print(any, ...)
		ln := fn.Name() == "println"
		var buf bytes.Buffer
		for k, arg := range args {
			if k > 0 && ln {
				buf.WriteRune(' ')
			}
			buf.WriteString(toString(arg))
		}
		if ln {
			buf.WriteRune('\n')
		}
		os.Stderr.Write(buf.Bytes())
		return nil

	case "len":
		switch x := args[0].(type) {
		case string:
			return len(x)
		case sstr:
			return len(x)
		case array:
			return len(x)
		case *value:
			return len((*x).(array))
		case []value:
			return len(x)
		case *omap:
			return x.len()
		case *channel:
			if x == nil {
				return 0
			}
			return len(x.buf)
		default:
			panic(fmt.Sprintf("len: illegal operand: %T", x))
		}

	case "cap":
		switch x := args[0].(type) {
		case array:
			return cap(x)
		case *value:
			return cap((*x).(array))
		case []value:
			return cap(x)
		case *channel:
			if x == nil {
				return 0
			}
			return x.cap
		default:
			panic(fmt.Sprintf("cap: illegal operand: %T", x))
		}

	case "min", "max":
		t := fn.Type().(*types.Signature).Params().At(0).Type()
		x := args[0]
		for _, y := range args[1:] {
			var lt value
			if fn.Name() == "min" {
				lt = i.binop(token.LSS, t, y, x)
			} else {
				lt = i.binop(token.GTR, t, y, x)
			}
			x = i.iteV(t, lt, y, x)
		}
		return x

	case "real":
		switch c := args[0].(type) {
		case complex64:
			return real(c)
		case complex128:
			return real(c)
		}
	case "imag":
		switch c := args[0].(type) {
		case complex64:
			return imag(c)
		case complex128:
			return imag(c)
		}
	case "complex":
		switch f := args[0].(type) {
		case float32:
			return complex(f, args[1].(float32))
		case float64:
			return complex(f, args[1].(float64))
		}

	case "panic":
		panic(targetPanic{args[0]})

	case "recover":
		return doRecover(caller)

	case "ssa:wrapnilchk":
		recv := args[0]
		if recv.(*value) == nil {
			recvType := args[1]
			methodName := args[2]
			panic(targetPanic{i.runtimeErr(fmt.Sprintf("value method (%s).%s called using nil *%s pointer",
				recvType, methodName, recvType))})
		}
		return recv

	case "ssa:deferstack":
		return &caller.defers

	// unsafe built-ins, supported where the boxed representation allows it
	case "String": // unsafe.String(ptr *byte, len)
		n := int(i.asIndex(args[1], nil))
		if n == 0 {
			return ""
		}
		p := args[0].(*value)
		return mkstr(append([]value(nil), unsafe.Slice(p, n)...))
	case "StringData":
		b := strBytes(args[0])
		if len(b) == 0 {
			return (*value)(nil)
		}
		return &b[0]
	case "SliceData":
		s := args[0].([]value)
		if cap(s) == 0 {
			return (*value)(nil)
		}
		return &s[:1][0]
	case "Slice": // unsafe.Slice(ptr *T, len)
		n := int(i.asIndex(args[1], nil))
		p := args[0].(*value)
		if p == nil {
			return []value(nil)
		}
		return unsafe.Slice(p, n)
	}

	panic(unsupported("built-in " + fn.Name() + " with these operands"))
}

// iteV selects a or b by a bool-or-term condition (scalars and strings of equal length only).
func (i *interpreter) iteV(t types.Type, c, a, b value) value {
	if cb, ok := c.(bool); ok {
		if cb {
			return a
		}
		return b
	}
	ct := c.(*smt.Term)
	if isStr(a) {
		ab, bb := strBytes(a), strBytes(b)
		if len(ab) != len(bb) {
			if i.truth(c) {
				return a
			}
			return b
		}
		out := make([]value, len(ab))
		for k := range ab {
			out[k] = norm(types.Typ[types.Uint8], i.ctx.Ite(ct, i.toTerm(ab[k]), i.toTerm(bb[k])))
		}
		return mkstr(out)
	}
	switch a.(type) {
	case float32, float64:
		if i.truth(c) {
			return a
		}
		return b
	}
	r := i.ctx.Ite(ct, i.toTerm(a), i.toTerm(b))
	if r.W == 0 {
		return normBool(r)
	}
	return norm(t, r)
}

// symSubstring handles s[lo:hi] where hi-lo is the same constant for every feasible value.
func (i *interpreter) symSubstring(x, lo, hi value) (value, bool) {
	c := i.ctx
	n := strLen(x)
	if n > symPtrMax {
		return nil, false
	}
	lt := c.Resize(i.toTerm(lo), 64, true)
	var ht *smt.Term
	if hi == nil {
		ht = c.BV(uint64(n), 64)
	} else {
		ht = c.Resize(i.toTerm(hi), 64, true)
	}
	lenT := c.Bin(smt.OBvSub, ht, lt)
	var L uint64
	if lenT.IsConst() {
		L = lenT.Val
	} else {
		i.ensureModel()
		L = i.evalModel(lenT)
		res, _ := i.solverCheck(c.Ne(lenT, c.BV(L, 64)), false, nil)
		if res != smt.Unsat {
			return nil, false
		}
	}
	if L > uint64(n) {
		return nil, false
	}
	// bounds: 0 <= lo && lo+L <= n
	inb := c.Bin(smt.OBvUle, lt, c.BV(uint64(n)-L, 64))
	if !i.truth(normBool(inb)) {
		if debugSlow {
			fmt.Fprintf(os.Stderr, "symSubstring out of range: lo=%s hi=%v at %s\n", lt, hi, i.where())
			os.WriteFile(fmt.Sprintf("/tmp/oob_%d.smt2", os.Getpid()), []byte(i.solver.Script(nil)), 0644)
		}
		panic(targetPanic{i.runtimeErr(fmt.Sprintf("slice bounds out of range [symbolic:+%d] with length %d", L, n))})
	}
	bs := strBytes(x)
	out := make([]value, L)
	for k := uint64(0); k < L; k++ {
		idx := c.Bin(smt.OBvAdd, lt, c.BV(k, 64))
		out[k] = i.symLoad(&symPtr{elems: bs, idx: idx}, types.Typ[types.Uint8])
	}
	return mkstr(out), true
}
