package interp

import (
	"fmt"
	"go/types"
	"strconv"
	"strings"
	"unsafe"

	"symgo/smt"
)

// omap is an insertion-ordered map.  Concrete keys are indexed by a canonical
// host key; keys containing symbolic scalars are compared entry by entry and
// the equality is decided (forked) by the explorer.
type omap struct {
	keyT    types.Type
	entries []*mentry
	idx     map[interface{}]*mentry
	nsym    int // live entries whose key is symbolic
	n       int // live entries
}

type mentry struct {
	key     value
	ck      interface{} // canonical concrete key, nil if symbolic
	val     value
	deleted bool
}

func makeMap(kt types.Type, reserve int64) *omap {
	return &omap{keyT: kt, idx: map[interface{}]*mentry{}}
}

func (m *omap) len() int {
	if m == nil {
		return 0
	}
	return m.n
}

// concreteKey returns a comparable host value that is equal for two values iff
// the values are equal Go map keys; ok is false if v contains symbolic parts.
func concreteKey(v value) (interface{}, bool) {
	switch v := v.(type) {
	case bool, int, int8, int16, int32, int64, uint, uint8, uint16, uint32, uint64, uintptr, float32, float64, complex64, complex128, string, *value, *channel, unsafe.Pointer:
		return v, true
	case *smt.Term, sstr:
		return nil, false
	case nil:
		return nil, true
	}
	var sb strings.Builder
	if !writeKey(&sb, v) {
		return nil, false
	}
	return "\x00" + sb.String(), true
}

func writeKey(sb *strings.Builder, v value) bool {
	switch v := v.(type) {
	case *smt.Term, sstr:
		return false
	case string:
		sb.WriteString(strconv.Quote(v))
	case structure:
		sb.WriteByte('{')
		for _, f := range v {
			if !writeKey(sb, f) {
				return false
			}
			sb.WriteByte(',')
		}
		sb.WriteByte('}')
	case array:
		sb.WriteByte('[')
		for _, f := range v {
			if !writeKey(sb, f) {
				return false
			}
			sb.WriteByte(',')
		}
		sb.WriteByte(']')
	case iface:
		if v.t == nil {
			sb.WriteString("nil")
			return true
		}
		mu.Lock()
		h := hasher.Hash(v.t)
		mu.Unlock()
		fmt.Fprintf(sb, "<%d:%s:", h, v.t.String())
		if !writeKey(sb, v.v) {
			return false
		}
		sb.WriteByte('>')
	case *value:
		fmt.Fprintf(sb, "%p", v)
	case *channel:
		fmt.Fprintf(sb, "%p", v)
	case native:
		fmt.Fprintf(sb, "n%p", v.v)
	default:
		fmt.Fprintf(sb, "%T:%v", v, v)
	}
	return true
}

// find returns the entry for key k, deciding symbolic equalities as needed.
func (i *interpreter) mapFind(m *omap, k value) *mentry {
	if m == nil {
		return nil
	}
	ck, ok := concreteKey(k)
	if ok {
		if e := m.idx[ck]; e != nil {
			return e
		}
		if m.nsym == 0 {
			return nil
		}
	}
	for _, e := range m.entries {
		if e.deleted {
			continue
		}
		if ok && e.ck != nil {
			continue // concrete vs concrete: already checked through idx
		}
		c := i.equalsV(m.keyT, k, e.key)
		if i.truth(c) {
			return e
		}
	}
	return nil
}

func (i *interpreter) mapLookup(m *omap, k value) (value, bool) {
	e := i.mapFind(m, k)
	if e == nil {
		return nil, false
	}
	return e.val, true
}

func (i *interpreter) mapInsert(m *omap, k, v value) {
	if m == nil {
		panic(targetPanic{i.runtimeErr("assignment to entry in nil map")})
	}
	if e := i.mapFind(m, k); e != nil {
		e.val = v
		return
	}
	e := &mentry{key: k, val: v}
	if ck, ok := concreteKey(k); ok {
		e.ck = ck
		m.idx[ck] = e
	} else {
		m.nsym++
	}
	m.entries = append(m.entries, e)
	m.n++
	// compact tombstones occasionally
	if len(m.entries) > 32 && len(m.entries) > 2*m.n {
		live := m.entries[:0:0]
		for _, e := range m.entries {
			if !e.deleted {
				live = append(live, e)
			}
		}
		m.entries = live
	}
}

func (i *interpreter) mapDelete(m *omap, k value) {
	if m == nil {
		return
	}
	e := i.mapFind(m, k)
	if e == nil {
		return
	}
	e.deleted = true
	if e.ck != nil {
		delete(m.idx, e.ck)
	} else {
		m.nsym--
	}
	m.n--
}

type omapIter struct {
	m   *omap
	pos int
	// snapshot of the entry list taken at range start, so that compaction
	// during iteration cannot skip entries.
	snap []*mentry
}

func (it *omapIter) next() tuple {
	for it.pos < len(it.snap) {
		e := it.snap[it.pos]
		it.pos++
		if !e.deleted {
			return tuple{true, e.key, e.val}
		}
	}
	return tuple{false, nil, nil}
}

func (i *interpreter) mapRange(m *omap) iter {
	if m == nil {
		return &omapIter{}
	}
	snap := append([]*mentry(nil), m.entries...)
	if i.mapOrder != nil {
		snap = i.mapOrder(m, snap)
	}
	return &omapIter{m: m, snap: snap}
}
