package interp

// Engine-level implementations ("intrinsics") of functions that cannot be
// interpreted from source: the harness API, assembly leaves, runtime, sync,
// reflection-based packages, and the environment.

import (
	"fmt"
	"go/types"
	"math"
	"os"
	"sort"
	"strings"
	"unsafe"

	"golang.org/x/tools/go/ssa"

	"symgo/smt"
)

type externalFn func(fr *frame, args []value) value

// Key strings are from Function.String().
var externals = make(map[string]externalFn)

const zz = "github.com/snapcore/snapd/zzverif."

func init() {
	for k, v := range map[string]externalFn{
		// ---- harness API ----
		zz + "NondetBool": func(fr *frame, a []value) value { return fr.i.nondet(a[0], 0, types.Typ[types.Bool]) },
		zz + "NondetByte": func(fr *frame, a []value) value { return fr.i.nondet(a[0], 8, types.Typ[types.Uint8]) },
		zz + "NondetU16":  func(fr *frame, a []value) value { return fr.i.nondet(a[0], 16, types.Typ[types.Uint16]) },
		zz + "NondetU32":  func(fr *frame, a []value) value { return fr.i.nondet(a[0], 32, types.Typ[types.Uint32]) },
		zz + "NondetU64":  func(fr *frame, a []value) value { return fr.i.nondet(a[0], 64, types.Typ[types.Uint64]) },
		zz + "NondetI32":  func(fr *frame, a []value) value { return fr.i.nondet(a[0], 32, types.Typ[types.Int32]) },
		zz + "NondetI64":  func(fr *frame, a []value) value { return fr.i.nondet(a[0], 64, types.Typ[types.Int64]) },
		zz + "NondetInt":  func(fr *frame, a []value) value { return fr.i.nondet(a[0], 64, types.Typ[types.Int]) },
		zz + "NondetUint": func(fr *frame, a []value) value { return fr.i.nondet(a[0], 64, types.Typ[types.Uint]) },
		zz + "NondetRange": func(fr *frame, a []value) value {
			i := fr.i
			lo, hi := a[1].(int), a[2].(int)
			v := i.nondet(a[0], 64, types.Typ[types.Int])
			t, ok := v.(*smt.Term)
			if !ok {
				if v.(int) < lo || v.(int) > hi {
					panic(endPath{PathPruned, "replayed NondetRange out of range"})
				}
				return v
			}
			c := i.ctx
			i.assume(normBool(c.And(c.Bin(smt.OBvSle, c.BV(uint64(lo), 64), t), c.Bin(smt.OBvSle, t, c.BV(uint64(hi), 64)))))
			return i.concretize(t, types.Typ[types.Int])
		},
		zz + "NondetBytes": func(fr *frame, a []value) value {
			n := a[1].(int)
			out := make([]value, n)
			for k := range out {
				out[k] = fr.i.nondet(fmt.Sprintf("%s[%d]", a[0].(string), k), 8, types.Typ[types.Uint8])
			}
			return out
		},
		zz + "NondetString": func(fr *frame, a []value) value {
			n := a[1].(int)
			out := make([]value, n)
			for k := range out {
				out[k] = fr.i.nondet(fmt.Sprintf("%s[%d]", a[0].(string), k), 8, types.Typ[types.Uint8])
			}
			return mkstr(out)
		},
		zz + "Param": func(fr *frame, a []value) value {
			if v, ok := fr.i.params[a[0].(string)]; ok {
				return v
			}
			return a[1]
		},
		zz + "And":     func(fr *frame, a []value) value { return fr.i.andV(a[0], a[1]) },
		zz + "Or":      func(fr *frame, a []value) value { return fr.i.orV(a[0], a[1]) },
		zz + "Not":     func(fr *frame, a []value) value { return fr.i.notV(a[0]) },
		zz + "Implies": func(fr *frame, a []value) value { return fr.i.orV(fr.i.notV(a[0]), a[1]) },
		zz + "IteInt":  func(fr *frame, a []value) value { return fr.i.iteV(types.Typ[types.Int], a[0], a[1], a[2]) },
		zz + "IteByte": func(fr *frame, a []value) value { return fr.i.iteV(types.Typ[types.Uint8], a[0], a[1], a[2]) },
		zz + "IteU64":  func(fr *frame, a []value) value { return fr.i.iteV(types.Typ[types.Uint64], a[0], a[1], a[2]) },
		zz + "StrEq":   func(fr *frame, a []value) value { return fr.i.equalsV(types.Typ[types.String], a[0], a[1]) },
		zz + "Counter": func(fr *frame, a []value) value {
			switch a[0].(string) {
			case "cond.signals":
				return fr.i.condSignals
			case "goroutines.queued":
				n := 0
				for _, g := range fr.i.goq {
					if !g.done {
						n++
					}
				}
				return n
			}
			return 0
		},
		zz + "Assume": func(fr *frame, a []value) value { fr.i.assume(a[0]); return nil },
		zz + "Assert": func(fr *frame, a []value) value { fr.i.check(a[0], a[1].(string)); return nil },
		zz + "Reach":  func(fr *frame, a []value) value { fr.i.path.reached[a[0].(string)]++; return nil },
		zz + "Stub": func(fr *frame, a []value) value {
			fr.i.stubs[a[0].(string)] = a[1].(iface).v
			return nil
		},
		zz + "RunGoroutines": func(fr *frame, a []value) value {
			n := 0
			for fr.i.runOneGoroutine() {
				n++
			}
			return n
		},
		zz + "RunGoroutine": func(fr *frame, a []value) value {
			k := a[0].(int)
			for _, g := range fr.i.goq {
				if g.done {
					continue
				}
				if k == 0 {
					g.done = true
					call(fr.i, nil, g.pos, g.fn, g.args)
					return nil
				}
				k--
			}
			panic(unsupported("RunGoroutine: no such queued goroutine"))
		},
		zz + "NoFork": func(fr *frame, a []value) value {
			saved := fr.i.noFork
			fr.i.noFork = true
			defer func() { fr.i.noFork = saved }()
			return call(fr.i, fr, 0, a[0], nil)
		},

		// ---- runtime ----
		"runtime.KeepAlive":                         extNop,
		"runtime.GC":                                extNop,
		"runtime.Gosched":                           extNop,
		"runtime.SetFinalizer":                      extNop,
		"runtime.GOMAXPROCS":                        func(fr *frame, a []value) value { return 1 },
		"runtime.NumCPU":                            func(fr *frame, a []value) value { return 1 },
		"runtime.NumGoroutine":                      func(fr *frame, a []value) value { return 1 },
		"runtime.Callers":                           func(fr *frame, a []value) value { return 0 },
		"runtime.Caller":                            func(fr *frame, a []value) value { return tuple{uintptr(0), "", 0, false} },
		"runtime.Stack":                             func(fr *frame, a []value) value { return 0 },
		"runtime.GOROOT":                            func(fr *frame, a []value) value { return "/usr/lib/go" },
		"runtime/debug.Stack":                       func(fr *frame, a []value) value { return []value(nil) },
		"internal/abi.NoEscape":                     func(fr *frame, a []value) value { return a[0] },
		"internal/abi.Escape":                       func(fr *frame, a []value) value { return a[0] },
		"strings.noescape":                          func(fr *frame, a []value) value { return a[0] },
		"internal/godebug.(*Setting).Value":         func(fr *frame, a []value) value { return "" },
		"internal/godebug.(*Setting).IncNonDefault": extNop,
		"internal/race.Enabled":                     func(fr *frame, a []value) value { return false },
		"internal/race.Acquire":                     extNop,
		"internal/race.Release":                     extNop,
		"internal/race.ReleaseMerge":                extNop,
		"internal/race.Disable":                     extNop,
		"internal/race.Enable":                      extNop,
		"internal/race.ReadRange":                   extNop,
		"internal/race.WriteRange":                  extNop,
		"internal/race.Read":                        extNop,
		"internal/race.Write":                       extNop,

		// ---- snapd logger: silent ----
		"github.com/snapcore/snapd/logger.Debugf":        extNop,
		"github.com/snapcore/snapd/logger.Noticef":       extNop,
		"github.com/snapcore/snapd/logger.Debug":         extNop,
		"github.com/snapcore/snapd/logger.Notice":        extNop,
		"github.com/snapcore/snapd/logger.Trace":         extNop,
		"github.com/snapcore/snapd/logger.NoGuardDebugf": extNop,

		// ---- snapd i18n: identity (no translation catalogue) ----
		"github.com/snapcore/snapd/i18n.G": func(fr *frame, a []value) value { return a[0] },
		"github.com/snapcore/snapd/i18n.NG": func(fr *frame, a []value) value {
			if n, ok := a[2].(int); ok && n == 1 {
				return a[0]
			}
			return a[1]
		},

		// ---- os / environment (deterministic, empty) ----
		"os.Getenv":      func(fr *frame, a []value) value { return fr.i.getenv(a[0]) },
		"os.LookupEnv":   func(fr *frame, a []value) value { s := fr.i.getenv(a[0]); return tuple{s, s != ""} },
		"syscall.Getenv": func(fr *frame, a []value) value { s := fr.i.getenv(a[0]); return tuple{s, s != ""} },
		"os.Getpid":      func(fr *frame, a []value) value { return 4242 },
		"os.Getuid":      func(fr *frame, a []value) value { return 0 },
		"os.Geteuid":     func(fr *frame, a []value) value { return 0 },
		"os.Exit":        func(fr *frame, a []value) value { panic(targetPanic{iface{fr.i.runtimeErrorString, "os.Exit called"}}) },

		// ---- math ----
		"math.Float64frombits": func(fr *frame, a []value) value { return math.Float64frombits(a[0].(uint64)) },
		"math.Float64bits":     func(fr *frame, a []value) value { return math.Float64bits(a[0].(float64)) },
		"math.Float32frombits": func(fr *frame, a []value) value { return math.Float32frombits(a[0].(uint32)) },
		"math.Float32bits":     func(fr *frame, a []value) value { return math.Float32bits(a[0].(float32)) },
		"math.Abs":             func(fr *frame, a []value) value { return math.Abs(a[0].(float64)) },
		"math.Floor":           func(fr *frame, a []value) value { return math.Floor(a[0].(float64)) },
		"math.Ceil":            func(fr *frame, a []value) value { return math.Ceil(a[0].(float64)) },
		"math.Trunc":           func(fr *frame, a []value) value { return math.Trunc(a[0].(float64)) },
		"math.Sqrt":            func(fr *frame, a []value) value { return math.Sqrt(a[0].(float64)) },
		"math.Log":             func(fr *frame, a []value) value { return math.Log(a[0].(float64)) },
		"math.Exp":             func(fr *frame, a []value) value { return math.Exp(a[0].(float64)) },
		"math.Pow":             func(fr *frame, a []value) value { return math.Pow(a[0].(float64), a[1].(float64)) },
		"math.Mod":             func(fr *frame, a []value) value { return math.Mod(a[0].(float64), a[1].(float64)) },
		"math.Inf":             func(fr *frame, a []value) value { return math.Inf(a[0].(int)) },
		"math.IsNaN":           func(fr *frame, a []value) value { return math.IsNaN(a[0].(float64)) },
		"math.IsInf":           func(fr *frame, a []value) value { return math.IsInf(a[0].(float64), a[1].(int)) },
		"math.NaN":             func(fr *frame, a []value) value { return math.NaN() },
		"math.Modf": func(fr *frame, a []value) value {
			x, y := math.Modf(a[0].(float64))
			return tuple{x, y}
		},

		// ---- internal/bytealg (assembly leaves as plain loops over possibly symbolic bytes) ----
		"internal/bytealg.IndexByte":           extIndexByte,
		"internal/bytealg.IndexByteString":     extIndexByte,
		"internal/bytealg.LastIndexByte":       extLastIndexByte,
		"internal/bytealg.LastIndexByteString": extLastIndexByte,
		"internal/bytealg.Count":               extCountByte,
		"internal/bytealg.CountString":         extCountByte,
		"internal/bytealg.Equal":               extBytesEqual,
		"bytes.Equal":                          extBytesEqual,
		"internal/bytealg.Compare":             extBytesCompare,
		"bytes.Compare":                        extBytesCompare,
		"strings.Compare":                      extBytesCompare,
		"internal/stringslite.Index":           extIndexString,
		"strings.Index":                        extIndexString,
		"internal/bytealg.IndexString":         extIndexString,
		"internal/bytealg.Index":               extIndexString,
		"bytes.Index":                          extIndexString,
		"internal/bytealg.MakeNoZero": func(fr *frame, a []value) value {
			n := int(fr.i.asIndex(a[0], types.Typ[types.Int]))
			s := make([]value, n)
			for k := range s {
				s[k] = uint8(0)
			}
			return s
		},
		"strings.HasPrefix":              extHasPrefix,
		"bytes.HasPrefix":                extHasPrefix,
		"internal/stringslite.HasPrefix": extHasPrefix,
		"strings.HasSuffix":              extHasSuffix,
		"bytes.HasSuffix":                extHasSuffix,
		"internal/stringslite.HasSuffix": extHasSuffix,

		// ---- sort (reflection-based entry points) ----
		"sort.Slice":       extSortSlice,
		"sort.SliceStable": extSortSliceStable,
	} {
		externals[k] = v
		if strings.HasPrefix(k, zz) {
			externals["symgo/zzverif."+strings.TrimPrefix(k, zz)] = v
		}
	}
}

func extNop(fr *frame, args []value) value { return nil }

func (i *interpreter) getenv(name value) value {
	n, ok := name.(string)
	if !ok {
		return ""
	}
	if v, ok := i.env[n]; ok {
		return v
	}
	return ""
}

// nondet returns a fresh symbolic value (or the replayed concrete one).
func (i *interpreter) nondet(name value, w int, t types.Type) value {
	n, ok := name.(string)
	if !ok {
		panic(unsupported("Nondet name must be a concrete string"))
	}
	term := i.newNondet(n, w)
	if i.opts.Replay != nil {
		v := i.opts.Replay[term.Name]
		if w == 0 {
			return v != 0
		}
		return fromConst(t, i.ctx.BV(v, w))
	}
	return term
}

// ---- byte-vector helpers ----

func bytesOf(v value) []value {
	switch v := v.(type) {
	case []value:
		return v
	case string, sstr:
		return strBytes(v)
	}
	panic(fmt.Sprintf("bytesOf: %T", v))
}

func extIndexByte(fr *frame, args []value) value {
	s := bytesOf(args[0])
	for k, b := range s {
		if fr.i.truth(fr.i.byteEq(b, args[1])) {
			return k
		}
	}
	return -1
}

func extLastIndexByte(fr *frame, args []value) value {
	s := bytesOf(args[0])
	for k := len(s) - 1; k >= 0; k-- {
		if fr.i.truth(fr.i.byteEq(s[k], args[1])) {
			return k
		}
	}
	return -1
}

func extCountByte(fr *frame, args []value) value {
	s := bytesOf(args[0])
	i := fr.i
	var n value = 0
	for _, b := range s {
		eq := i.byteEq(b, args[1])
		switch e := eq.(type) {
		case bool:
			if e {
				n = i.binop(tokenADD, types.Typ[types.Int], n, 1)
			}
		case *smt.Term:
			n = i.binop(tokenADD, types.Typ[types.Int], n, norm(types.Typ[types.Int], i.ctx.BoolToBV(e, 64)))
		}
	}
	return n
}

func extBytesEqual(fr *frame, args []value) value {
	a, b := bytesOf(args[0]), bytesOf(args[1])
	if len(a) != len(b) {
		return false
	}
	var acc value = true
	for k := range a {
		acc = fr.i.andV(acc, fr.i.byteEq(a[k], b[k]))
		if acc == false {
			return false
		}
	}
	return acc
}

func extBytesCompare(fr *frame, args []value) value {
	i := fr.i
	a, b := args[0], args[1]
	if _, ok := a.([]value); ok {
		a = mkstr(a.([]value))
	}
	if _, ok := b.([]value); ok {
		b = mkstr(b.([]value))
	}
	if sa, ok := a.(string); ok {
		if sb, ok := b.(string); ok {
			return strings.Compare(sa, sb)
		}
	}
	lt := i.strLess(a, b, false)
	eq := i.equalsV(types.Typ[types.String], a, b)
	r := i.iteV(types.Typ[types.Int], lt, -1, i.iteV(types.Typ[types.Int], eq, 0, 1))
	return r
}

func extHasPrefix(fr *frame, args []value) value {
	s, p := bytesOf(args[0]), bytesOf(args[1])
	if len(p) > len(s) {
		return false
	}
	var acc value = true
	for k := range p {
		acc = fr.i.andV(acc, fr.i.byteEq(s[k], p[k]))
		if acc == false {
			return false
		}
	}
	return acc
}

func extHasSuffix(fr *frame, args []value) value {
	s, p := bytesOf(args[0]), bytesOf(args[1])
	if len(p) > len(s) {
		return false
	}
	off := len(s) - len(p)
	var acc value = true
	for k := range p {
		acc = fr.i.andV(acc, fr.i.byteEq(s[off+k], p[k]))
		if acc == false {
			return false
		}
	}
	return acc
}

func extIndexString(fr *frame, args []value) value {
	s, sub := bytesOf(args[0]), bytesOf(args[1])
	if len(sub) == 0 {
		return 0
	}
	for k := 0; k+len(sub) <= len(s); k++ {
		var acc value = true
		for j := range sub {
			acc = fr.i.andV(acc, fr.i.byteEq(s[k+j], sub[j]))
			if acc == false {
				break
			}
		}
		if fr.i.truth(acc) {
			return k
		}
	}
	return -1
}

// ---- sort.Slice ----

func sortSliceImpl(fr *frame, args []value, stable bool) value {
	i := fr.i
	x, ok := args[0].(iface).v.([]value)
	if !ok {
		panic(unsupported("sort.Slice on a non-slice"))
	}
	less := args[1]
	elemT := args[0].(iface).t.Underlying().(*types.Slice).Elem()
	lessFn := func(a, b int) bool {
		return i.truth(call(i, fr, 0, less, []value{a, b}))
	}
	sw := &sliceSorter{x: x, less: lessFn, elemT: elemT}
	if stable {
		sort.Stable(sw)
	} else {
		sort.Sort(sw)
	}
	return nil
}

type sliceSorter struct {
	x     []value
	less  func(a, b int) bool
	elemT types.Type
}

func (s *sliceSorter) Len() int           { return len(s.x) }
func (s *sliceSorter) Less(a, b int) bool { return s.less(a, b) }
func (s *sliceSorter) Swap(a, b int) {
	va := load(s.elemT, &s.x[a])
	vb := load(s.elemT, &s.x[b])
	store(s.elemT, &s.x[a], vb)
	store(s.elemT, &s.x[b], va)
}

func extSortSlice(fr *frame, args []value) value       { return sortSliceImpl(fr, args, false) }
func extSortSliceStable(fr *frame, args []value) value { return sortSliceImpl(fr, args, true) }

var _ = unsafe.Pointer(nil)
var _ = os.Getenv
var _ *ssa.Function
