// Derived from golang.org/x/tools/go/ssa/interp (BSD licence, see LICENSE.xtools).
//
// Package interp is a symbolic interpreter for the SSA form of Go programs:
// scalars may be SMT terms, heap shape is concrete, symbolic branches are
// decided by a solver and explored by re-execution (see explore.go).
package interp

import (
	"fmt"
	"go/token"
	"go/types"
	"os"
	"runtime"
	"slices"
	"strings"

	"golang.org/x/tools/go/ssa"

	"symgo/smt"
)

type continuation int

const (
	kNext continuation = iota
	kReturn
	kJump
)

// Options configure one interpreter instance.
type Options struct {
	MaxDecisions         int
	MaxConcretize        int
	MaxSteps             int64
	MaxDepth             int
	StopAtFirstViolation bool
	Trace                bool
	InitPkgs             map[string]bool // packages whose init is executed
	Replay               map[string]uint64
}

// State of one interpreter (one worker).
type interpreter struct {
	prog               *ssa.Program
	globals            map[*ssa.Global]*value
	runtimeErrorString types.Type
	sizes              types.Sizes
	opts               Options

	ctx    *smt.Ctx
	solver *smt.Solver
	path   *pathState

	curFrame *frame
	depth    int
	noFork   bool

	goq      []*goroutine
	stubs    map[string]value
	mapOrder func(m *omap, e []*mentry) []*mentry

	funcsEntered  map[string]int
	intrHit       map[string]int
	opaqueFmt     int
	nativeState   map[string]interface{}
	onceDone      map[*value]bool
	errorsNewT    types.Type
	monoClock     *smt.Term
	env           map[string]string
	onceGlobals   map[*ssa.Global]bool
	initAllowed   map[*ssa.Package]bool
	params        map[string]int
	condSignals   int
	opaqueInts    bool
	jsonSyms      map[string]jsonSym
	pureCache     map[*ssa.Function]purity
	noMerge       bool
	mergeDepth    int
	merges        int
	mergeAborts   int
	memoHits      int
	crossMemo     map[string]value
	auxRegistry   map[string]auxEntry
	sideCache     map[string]bool
	heapFreeCache map[*ssa.Function]bool
	zeroStubs     map[string]bool
}

type goroutine struct {
	fn   value
	args []value
	pos  token.Pos
	done bool
}

type deferred struct {
	fn    value
	args  []value
	instr *ssa.Defer
	tail  *deferred
}

type frame struct {
	i                *interpreter
	caller           *frame
	fn               *ssa.Function
	block, prevBlock *ssa.BasicBlock
	env              map[ssa.Value]value // dynamic values of SSA variables
	locals           []value
	defers           *deferred
	result           value
	panicking        bool
	panic            interface{}
	phitemps         []value // temporaries for parallel phi assignment
	curInstr         ssa.Instruction
}

func (fr *frame) get(key ssa.Value) value {
	switch key := key.(type) {
	case nil:
		// Hack; simplifies handling of optional attributes
		// such as ssa.Slice.{Low,High}.
		return nil
	case *ssa.Function, *ssa.Builtin:
		return key
	case *ssa.Const:
		return constValue(key)
	case *ssa.Global:
		if r, ok := fr.i.globals[key]; ok {
			return r
		}
		return fr.i.globalAddr(key)
	}
	if r, ok := fr.env[key]; ok {
		return r
	}
	panic(fmt.Sprintf("get: no value for %T: %v", key, key.Name()))
}

// globalAddr lazily allocates storage for a global.
func (i *interpreter) globalAddr(g *ssa.Global) *value {
	if r, ok := i.globals[g]; ok {
		return r
	}
	cell := zero(deref(g.Type()))
	i.globals[g] = &cell
	return &cell
}

// isPathControl reports panics that must not be intercepted by target-level recover/defer.
func isPathControl(p interface{}) bool {
	switch p.(type) {
	case endPath, unsupportedErr:
		return true
	}
	return false
}

// runDefer runs a deferred call d.
// It always returns normally, but may set or clear fr.panic.
func (fr *frame) runDefer(d *deferred) {
	var ok bool
	defer func() {
		if !ok {
			// Deferred call created a new state of panic.
			r := recover()
			if isPathControl(r) {
				panic(r)
			}
			fr.panicking = true
			fr.panic = r
		}
	}()
	call(fr.i, fr, d.instr.Pos(), d.fn, d.args)
	ok = true
}

// runDefers executes fr's deferred function calls in LIFO order.
func (fr *frame) runDefers() {
	for d := fr.defers; d != nil; d = d.tail {
		fr.runDefer(d)
	}
	fr.defers = nil
	if fr.panicking {
		panic(fr.panic) // new panic, or still panicking
	}
}

func lookupMethod(i *interpreter, typ types.Type, meth *types.Func) *ssa.Function {
	return i.prog.LookupMethod(typ, meth.Pkg(), meth.Name())
}

func (i *interpreter) runtimeErr(msg string) value {
	if debugSlow {
		fmt.Fprintf(os.Stderr, "runtime error: %s at %s\n", msg, i.where())
	}
	return iface{i.runtimeErrorString, "runtime error: " + msg}
}

// visitInstr interprets a single ssa.Instruction within the activation
// record frame.  It returns a continuation value indicating where to
// read the next instruction from.
func visitInstr(fr *frame, instr ssa.Instruction) continuation {
	i := fr.i
	switch instr := instr.(type) {
	case *ssa.DebugRef:
		// no-op

	case *ssa.UnOp:
		fr.env[instr] = i.unop(instr, fr.get(instr.X))

	case *ssa.BinOp:
		fr.env[instr] = i.binop(instr.Op, instr.X.Type(), fr.get(instr.X), fr.get(instr.Y))

	case *ssa.Call:
		fn, args := prepareCall(fr, &instr.Call)
		fr.env[instr] = call(fr.i, fr, instr.Pos(), fn, args)

	case *ssa.ChangeInterface:
		fr.env[instr] = fr.get(instr.X)

	case *ssa.ChangeType:
		fr.env[instr] = fr.get(instr.X) // (can't fail)

	case *ssa.Convert:
		fr.env[instr] = i.conv(instr.Type(), instr.X.Type(), fr.get(instr.X))

	case *ssa.SliceToArrayPointer:
		fr.env[instr] = sliceToArrayPointer(instr.Type(), instr.X.Type(), fr.get(instr.X))

	case *ssa.MakeInterface:
		fr.env[instr] = iface{t: instr.X.Type(), v: fr.get(instr.X)}

	case *ssa.Extract:
		fr.env[instr] = fr.get(instr.Tuple).(tuple)[instr.Index]

	case *ssa.Slice:
		fr.env[instr] = i.slice(instr, fr.get(instr.X), fr.get(instr.Low), fr.get(instr.High), fr.get(instr.Max))

	case *ssa.Return:
		switch len(instr.Results) {
		case 0:
		case 1:
			fr.result = fr.get(instr.Results[0])
		default:
			var res []value
			for _, r := range instr.Results {
				res = append(res, fr.get(r))
			}
			fr.result = tuple(res)
		}
		fr.block = nil
		return kReturn

	case *ssa.RunDefers:
		fr.runDefers()

	case *ssa.Panic:
		panic(targetPanic{fr.get(instr.X)})

	case *ssa.Send:
		i.chanSend(fr.get(instr.Chan).(*channel), fr.get(instr.X))

	case *ssa.Store:
		addr := fr.get(instr.Addr)
		switch a := addr.(type) {
		case *value:
			if a == nil {
				panic(targetPanic{i.runtimeErr("invalid memory address or nil pointer dereference")})
			}
			store(deref(instr.Addr.Type()), a, fr.get(instr.Val))
		case *symPtr:
			i.symStore(a, deref(instr.Addr.Type()), fr.get(instr.Val))
		default:
			panic(fmt.Sprintf("store through %T", addr))
		}

	case *ssa.If:
		succ := 1
		if i.truth(fr.get(instr.Cond)) {
			succ = 0
		}
		fr.prevBlock, fr.block = fr.block, fr.block.Succs[succ]
		return kJump

	case *ssa.Jump:
		fr.prevBlock, fr.block = fr.block, fr.block.Succs[0]
		return kJump

	case *ssa.Defer:
		fn, args := prepareCall(fr, &instr.Call)
		defers := &fr.defers
		if into := fr.get(instr.DeferStack); into != nil {
			defers = into.(**deferred)
		}
		*defers = &deferred{
			fn:    fn,
			args:  args,
			instr: instr,
			tail:  *defers,
		}

	case *ssa.Go:
		fn, args := prepareCall(fr, &instr.Call)
		i.goq = append(i.goq, &goroutine{fn: fn, args: args, pos: instr.Pos()})

	case *ssa.MakeChan:
		fr.env[instr] = &channel{cap: int(i.asIndex(fr.get(instr.Size), instr.Size.Type()))}

	case *ssa.Alloc:
		var addr *value
		if instr.Heap {
			// new
			addr = new(value)
			fr.env[instr] = addr
		} else {
			// local
			addr = fr.env[instr].(*value)
		}
		*addr = zero(deref(instr.Type()))

	case *ssa.MakeSlice:
		n := i.asIndex(fr.get(instr.Cap), instr.Cap.Type())
		l := i.asIndex(fr.get(instr.Len), instr.Len.Type())
		if l < 0 || n < l {
			panic(targetPanic{i.runtimeErr("makeslice: len out of range")})
		}
		if n > 1<<24 {
			panic(unsupported(fmt.Sprintf("make of %d elements", n)))
		}
		slice := make([]value, n)
		tElt := instr.Type().Underlying().(*types.Slice).Elem()
		for k := range slice {
			slice[k] = zero(tElt)
		}
		fr.env[instr] = slice[:l]

	case *ssa.MakeMap:
		fr.env[instr] = makeMap(instr.Type().Underlying().(*types.Map).Key(), 0)

	case *ssa.Range:
		fr.env[instr] = i.rangeIter(fr.get(instr.X), instr.X.Type())

	case *ssa.Next:
		fr.env[instr] = fr.get(instr.Iter).(iter).next()

	case *ssa.FieldAddr:
		p := fr.get(instr.X).(*value)
		if p == nil {
			panic(targetPanic{i.runtimeErr("invalid memory address or nil pointer dereference")})
		}
		fr.env[instr] = &(*p).(structure)[instr.Field]

	case *ssa.Field:
		fr.env[instr] = fr.get(instr.X).(structure)[instr.Field]

	case *ssa.IndexAddr:
		fr.env[instr] = i.indexAddr(instr, fr.get(instr.X), fr.get(instr.Index))

	case *ssa.Index:
		fr.env[instr] = i.index(instr, fr.get(instr.X), fr.get(instr.Index))

	case *ssa.Lookup:
		fr.env[instr] = i.lookup(instr, fr.get(instr.X), fr.get(instr.Index))

	case *ssa.MapUpdate:
		m := fr.get(instr.Map).(*omap)
		i.mapInsert(m, fr.get(instr.Key), fr.get(instr.Value))

	case *ssa.TypeAssert:
		fr.env[instr] = typeAssert(fr.i, instr, fr.get(instr.X).(iface))

	case *ssa.MakeClosure:
		var bindings []value
		for _, binding := range instr.Bindings {
			bindings = append(bindings, fr.get(binding))
		}
		fr.env[instr] = &closure{instr.Fn.(*ssa.Function), bindings}

	case *ssa.Phi:
		panic("unreachable: phis are processed at block entry")

	case *ssa.Select:
		fr.env[instr] = i.selectStmt(fr, instr)

	default:
		panic(fmt.Sprintf("unexpected instruction: %T", instr))
	}

	return kNext
}

// prepareCall determines the function value and argument values for a
// function call in a Call, Go or Defer instruction, performing
// interface method lookup if needed.
func prepareCall(fr *frame, call *ssa.CallCommon) (fn value, args []value) {
	v := fr.get(call.Value)
	if call.Method == nil {
		// Function call.
		fn = v
	} else {
		// Interface method invocation.
		recv := v.(iface)
		if recv.t == nil {
			panic(targetPanic{fr.i.runtimeErr("invalid memory address or nil pointer dereference (method call on nil interface)")})
		}
		if f := lookupMethod(fr.i, recv.t, call.Method); f == nil {
			// Unreachable in well-typed programs.
			panic(fmt.Sprintf("method set for dynamic type %v does not contain %s", recv.t, call.Method))
		} else {
			fn = f
		}
		args = append(args, recv.v)
	}
	for _, arg := range call.Args {
		args = append(args, fr.get(arg))
	}
	return
}

// call interprets a call to a function (function, builtin or closure)
// fn with arguments args, returning its result.
// callpos is the position of the callsite.
func call(i *interpreter, caller *frame, callpos token.Pos, fn value, args []value) value {
	switch fn := fn.(type) {
	case *ssa.Function:
		if fn == nil {
			panic(targetPanic{i.runtimeErr("invalid memory address or nil pointer dereference (call of nil func)")})
		}
		return callSSA(i, caller, callpos, fn, args, nil)
	case *closure:
		return callSSA(i, caller, callpos, fn.Fn, args, fn.Env)
	case *ssa.Builtin:
		return callBuiltin(caller, callpos, fn, args)
	case hostFunc:
		return fn(caller, args)
	}
	panic(fmt.Sprintf("cannot call %T", fn))
}

// hostFunc is a function value implemented by the engine.
type hostFunc func(fr *frame, args []value) value

func loc(fset *token.FileSet, pos token.Pos) string {
	if pos == token.NoPos {
		return ""
	}
	return " at " + fset.Position(pos).String()
}

// callSSA interprets a call to function fn with arguments args,
// and lexical environment env, returning its result.
func callSSA(i *interpreter, caller *frame, callpos token.Pos, fn *ssa.Function, args []value, env []value) value {
	if i.opts.Trace {
		fmt.Fprintf(os.Stderr, "%*sEntering %s\n", i.depth, "", fn)
	}
	fr := &frame{
		i:      i,
		caller: caller, // for panic/recover
		fn:     fn,
	}
	name := fn.String()
	if fn.Parent() == nil {
		if fn.Synthetic == "package initializer" && !i.initAllowed[fn.Pkg] {
			return nil
		}
		if i.zeroStubs[name] {
			i.intrHit["zero-stub:"+name]++
			return zero(fn.Signature.Results())
		}
		if len(i.stubs) > 0 {
			if repl, ok := i.stubs[name]; ok {
				i.intrHit["stub:"+name]++
				return call(i, caller, callpos, repl, args)
			}
		}
		if ext := externals[name]; ext != nil {
			i.intrHit[name]++
			saved := i.curFrame
			i.curFrame = fr
			defer func() { i.curFrame = saved }()
			return ext(fr, args)
		}
		if fn.Blocks == nil {
			if o := fn.Origin(); o != nil {
				if ext := externals[o.String()]; ext != nil {
					i.intrHit[o.String()]++
					return ext(fr, args)
				}
			}
			panic(unsupported("no code for function: " + name))
		}
	}

	if len(args) > 0 && i.path != nil {
		if r, ok := i.tryMergeCall(caller, fn, args); ok {
			return r
		}
	}
	return callSSAbody(i, caller, fn, args, env)
}

// callSSAbody interprets the body of fn in a new frame.
func callSSAbody(i *interpreter, caller *frame, fn *ssa.Function, args []value, env []value) value {
	fr := &frame{i: i, caller: caller, fn: fn}
	name := fn.String()
	// generic function body?
	if fn.TypeParams().Len() > 0 && len(fn.TypeArgs()) == 0 {
		panic("interp requires ssa.BuilderMode to include InstantiateGenerics to execute generics")
	}
	i.funcsEntered[name]++
	i.depth++
	if i.depth > i.opts.MaxDepth {
		panic(endPath{PathUnwind, fmt.Sprintf("call depth exceeds %d in %s", i.opts.MaxDepth, name)})
	}
	saved := i.curFrame
	i.curFrame = fr
	defer func() { i.curFrame = saved; i.depth-- }()

	fr.env = make(map[ssa.Value]value)
	fr.block = fn.Blocks[0]
	fr.locals = make([]value, len(fn.Locals))
	for k, l := range fn.Locals {
		fr.locals[k] = zero(deref(l.Type()))
		fr.env[l] = &fr.locals[k]
	}
	for k, p := range fn.Params {
		fr.env[p] = args[k]
	}
	for k, fv := range fn.FreeVars {
		fr.env[fv] = env[k]
	}
	for fr.block != nil {
		runFrame(fr)
	}
	return fr.result
}

// runFrame executes SSA instructions starting at fr.block and
// continuing until a return, a panic, or a recovered panic.
func runFrame(fr *frame) {
	defer func() {
		if fr.block == nil {
			return // normal return
		}
		r := recover()
		if isPathControl(r) {
			panic(r)
		}
		if re, ok := r.(runtime.Error); ok {
			// classify host runtime errors raised while executing target semantics
			msg := re.Error()
			switch {
			case strings.Contains(msg, "index out of range"),
				strings.Contains(msg, "slice bounds out of range"),
				strings.Contains(msg, "nil pointer dereference"),
				strings.Contains(msg, "integer divide by zero"),
				strings.Contains(msg, "nil map"):
				r = targetPanic{iface{fr.i.runtimeErrorString, msg}}
			default:
				panic(unsupported(fmt.Sprintf("engine error in %s at %s: %v", fr.fn, fr.i.where(), msg)))
			}
		}
		if s, ok := r.(string); ok {
			panic(unsupported(fmt.Sprintf("engine panic in %s at %s: %s", fr.fn, fr.i.where(), s)))
		}
		fr.panicking = true
		fr.panic = r
		fr.runDefers()
		fr.block = fr.fn.Recover
	}()

	i := fr.i
	for {
		nonPhis := executePhis(fr)
		for _, instr := range nonPhis {
			fr.curInstr = instr
			i.path.steps++
			if i.path.steps > i.opts.MaxSteps {
				panic(endPath{PathUnwind, fmt.Sprintf("more than %d instructions on one path (in %s)", i.opts.MaxSteps, fr.fn)})
			}
			if i.opts.Trace {
				if v, ok := instr.(ssa.Value); ok {
					fmt.Fprintf(os.Stderr, "%*s  %s = %s\n", i.depth, "", v.Name(), instr)
				} else {
					fmt.Fprintf(os.Stderr, "%*s  %s\n", i.depth, "", instr)
				}
			}
			if visitInstr(fr, instr) == kReturn {
				return
			}
			// Inv: kNext (continue) or kJump (last instr)
		}
	}
}

// executePhis executes the phi-nodes at the start of the current
// block and returns the non-phi instructions.
func executePhis(fr *frame) []ssa.Instruction {
	firstNonPhi := -1
	for i, instr := range fr.block.Instrs {
		if _, ok := instr.(*ssa.Phi); !ok {
			firstNonPhi = i
			break
		}
	}
	// Inv: 0 <= firstNonPhi; every block contains a non-phi.

	nonPhis := fr.block.Instrs[firstNonPhi:]
	if firstNonPhi > 0 {
		phis := fr.block.Instrs[:firstNonPhi]
		predIndex := slices.Index(fr.block.Preds, fr.prevBlock)
		fr.phitemps = fr.phitemps[:0]
		for _, phi := range phis {
			phi := phi.(*ssa.Phi)
			fr.phitemps = append(fr.phitemps, fr.get(phi.Edges[predIndex]))
		}
		for i, phi := range phis {
			fr.env[phi.(*ssa.Phi)] = fr.phitemps[i]
		}
	}
	return nonPhis
}

// doRecover implements the recover() built-in.
func doRecover(caller *frame) value {
	// recover() must be exactly one level beneath the deferred
	// function (two levels beneath the panicking function) to
	// have any effect.
	if caller != nil && !caller.panicking &&
		caller.caller != nil && caller.caller.panicking {
		caller.caller.panicking = false
		p := caller.caller.panic
		caller.caller.panic = nil

		switch p := p.(type) {
		case targetPanic:
			// The target program explicitly called panic().
			return p.v
		case runtime.Error:
			return iface{caller.i.runtimeErrorString, p.Error()}
		default:
			panic(fmt.Sprintf("unexpected panic type %T in target call to recover()", p))
		}
	}
	return iface{}
}
