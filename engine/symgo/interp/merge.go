package interp

// Pure-call summarisation: a call to a side-effect-free function with symbolic
// arguments is explored in a nested context (all its feasible paths), and the
// results are merged into one value built from ite terms, so that the caller's path
// is not multiplied by the callee's internal branching (time.Time.Before/Add/Sub,
// small classifiers, min/max helpers ...).

import (
	"fmt"
	"go/token"
	"go/types"
	"os"
	"strings"

	"golang.org/x/tools/go/ssa"

	"symgo/smt"
)

var debugMerge = os.Getenv("SYMGO_DEBUG_MERGE") != ""

type purity int8

const (
	purityUnknown purity = iota
	purityVisiting
	purityPure
	purityImpure
)

// isPure reports whether fn (transitively) has no side effects visible to the caller.
func (i *interpreter) isPure(fn *ssa.Function) bool {
	if i.pureCache == nil {
		i.pureCache = map[*ssa.Function]purity{}
	}
	switch i.pureCache[fn] {
	case purityPure:
		return true
	case purityImpure, purityVisiting:
		return false
	}
	i.pureCache[fn] = purityVisiting
	ok := i.computePure(fn)
	if ok {
		i.pureCache[fn] = purityPure
	} else {
		i.pureCache[fn] = purityImpure
	}
	return ok
}

// rootedInLocalAlloc: the address is derived from a non-escaping or fresh Alloc of this function.
func rootedInLocalAlloc(v ssa.Value) bool {
	for depth := 0; depth < 8; depth++ {
		switch x := v.(type) {
		case *ssa.Alloc:
			return true
		case *ssa.FieldAddr:
			v = x.X
		case *ssa.IndexAddr:
			v = x.X
		default:
			return false
		}
	}
	return false
}

func flatType(t types.Type, depth int) bool {
	if depth > 4 {
		return false
	}
	switch u := t.Underlying().(type) {
	case *types.Basic:
		return u.Kind() != types.UnsafePointer
	case *types.Struct:
		for k := 0; k < u.NumFields(); k++ {
			ft := u.Field(k).Type()
			if _, isPtr := ft.Underlying().(*types.Pointer); isPtr {
				continue // pointers are merged only when identical
			}
			if !flatType(ft, depth+1) {
				return false
			}
		}
		return true
	case *types.Tuple:
		for k := 0; k < u.Len(); k++ {
			if !flatType(u.At(k).Type(), depth+1) {
				return false
			}
		}
		return true
	case *types.Array:
		return u.Len() <= 16 && flatType(u.Elem(), depth+1)
	}
	return false
}

// heapFree reports whether a pure function's result depends on its arguments only (no loads
// from memory it did not allocate itself), so that its summary can be memoised per path.
func (i *interpreter) heapFree(fn *ssa.Function) bool {
	if v, ok := i.heapFreeCache[fn]; ok {
		return v
	}
	if i.heapFreeCache == nil {
		i.heapFreeCache = map[*ssa.Function]bool{}
	}
	i.heapFreeCache[fn] = false // cycles
	ok := true
	for _, b := range fn.Blocks {
		for _, in := range b.Instrs {
			switch x := in.(type) {
			case *ssa.UnOp:
				if x.Op == token.MUL && !rootedInLocalAlloc(x.X) {
					ok = false
				}
			case *ssa.Lookup:
				ok = false
			case *ssa.Call:
				if c, isF := x.Call.Value.(*ssa.Function); isF && !i.heapFree(c) {
					ok = false
				}
			}
			for _, op := range in.Operands(nil) {
				if _, isG := (*op).(*ssa.Global); isG {
					ok = false
				}
			}
		}
	}
	i.heapFreeCache[fn] = ok
	return ok
}

// memoKey identifies a call by function and argument values (terms by identity).
func memoKey(fn *ssa.Function, args []value) (string, bool) {
	var sb strings.Builder
	fmt.Fprintf(&sb, "%p", fn)
	var w func(v value) bool
	w = func(v value) bool {
		switch x := v.(type) {
		case *smt.Term:
			fmt.Fprintf(&sb, "|t%d", x.ID)
		case structure:
			sb.WriteString("|{")
			for _, f := range x {
				if !w(f) {
					return false
				}
			}
			sb.WriteString("}")
		case array:
			sb.WriteString("|[")
			for _, f := range x {
				if !w(f) {
					return false
				}
			}
			sb.WriteString("]")
		case sstr:
			sb.WriteString("|s")
			for _, f := range x {
				if !w(f) {
					return false
				}
			}
		case string:
			fmt.Fprintf(&sb, "|%q", x)
		case *value:
			fmt.Fprintf(&sb, "|p%p", x)
		case bool, int, int8, int16, int32, int64, uint, uint8, uint16, uint32, uint64, uintptr, float32, float64:
			fmt.Fprintf(&sb, "|%T%v", x, x)
		default:
			return false
		}
		return true
	}
	for _, a := range args {
		if !w(a) {
			return "", false
		}
	}
	return sb.String(), true
}

func (i *interpreter) computePure(fn *ssa.Function) bool {
	if fn.Blocks == nil || fn.Parent() != nil || len(fn.FreeVars) > 0 {
		return false
	}
	if externals[fn.String()] != nil {
		return false
	}
	if !flatType(fn.Signature.Results(), 0) || fn.Signature.Results().Len() == 0 {
		return false
	}
	if hasLoop(fn) {
		// loops multiply the nested paths; summarising them costs more than forking
		return false
	}
	ninstr := 0
	for _, b := range fn.Blocks {
		for _, in := range b.Instrs {
			ninstr++
			switch x := in.(type) {
			case *ssa.Store:
				if !rootedInLocalAlloc(x.Addr) {
					return false
				}
			case *ssa.MapUpdate, *ssa.Send, *ssa.Go, *ssa.Defer, *ssa.RunDefers, *ssa.Select, *ssa.MakeChan, *ssa.MakeClosure, *ssa.Panic, *ssa.MakeMap, *ssa.Range, *ssa.Next:
				return false
			case *ssa.Alloc:
				if x.Heap {
					// fresh heap objects are fine as long as they do not escape through the result (flat results only)
				}
			case *ssa.Call:
				if x.Call.IsInvoke() {
					return false
				}
				switch c := x.Call.Value.(type) {
				case *ssa.Builtin:
					switch c.Name() {
					case "len", "cap", "min", "max":
					default:
						return false
					}
				case *ssa.Function:
					if !i.isPure(c) {
						return false
					}
				default:
					return false
				}
			}
		}
	}
	return ninstr <= 250
}

// hasLoop reports whether the control-flow graph of fn has a cycle.
func hasLoop(fn *ssa.Function) bool {
	state := make([]int8, len(fn.Blocks))
	var dfs func(b *ssa.BasicBlock) bool
	dfs = func(b *ssa.BasicBlock) bool {
		state[b.Index] = 1
		for _, s := range b.Succs {
			if state[s.Index] == 1 {
				return true
			}
			if state[s.Index] == 0 && dfs(s) {
				return true
			}
		}
		state[b.Index] = 2
		return false
	}
	return len(fn.Blocks) > 0 && dfs(fn.Blocks[0])
}

func hasSymbolic(v value, depth int) bool {
	switch x := v.(type) {
	case *smt.Term, sstr:
		return true
	case structure:
		if depth > 3 {
			return false
		}
		for _, f := range x {
			if hasSymbolic(f, depth+1) {
				return true
			}
		}
	case array:
		if depth > 3 || len(x) > 16 {
			return false
		}
		for _, f := range x {
			if hasSymbolic(f, depth+1) {
				return true
			}
		}
	case tuple:
		for _, f := range x {
			if hasSymbolic(f, depth+1) {
				return true
			}
		}
	}
	return false
}

// mergeAbort is raised when a nested exploration cannot be summarised.
type mergeAbort struct{ why string }

// tryMergeCall explores fn(args) in a nested context and merges the results.
func (i *interpreter) tryMergeCall(caller *frame, fn *ssa.Function, args []value) (res value, ok bool) {
	if i.noMerge || i.mergeDepth > 6 || i.opts.Replay != nil {
		return nil, false
	}
	sym := false
	for _, a := range args {
		if hasSymbolic(a, 0) {
			sym = true
			break
		}
	}
	if !sym || !i.isPure(fn) {
		return nil, false
	}
	outer := i.path
	mkey, memo, xkey := "", false, ""
	if i.heapFree(fn) {
		mkey, memo = memoKey(fn, args)
		if memo {
			// a summary computed under a weaker path condition (this context or an enclosing
			// one) stays valid; summaries of sibling contexts are not visible here
			for q := outer; q != nil; q = q.parent {
				if r, hit := q.memo[mkey]; hit {
					i.memoHits++
					return r, true
				}
			}
			// summaries computed under exactly this path condition on an earlier (re-)execution
			xkey = fmt.Sprintf("%s|pc%x", mkey, outer.pcHash)
			if r, hit := i.crossMemo[xkey]; hit {
				i.memoHits++
				i.ensureAuxFor(r)
				if outer.memo == nil {
					outer.memo = map[string]value{}
				}
				outer.memo[mkey] = r
				return r, true
			}
		}
	}
	if debugMerge {
		fmt.Fprintf(os.Stderr, "merge%d: %s\n", i.mergeDepth, fn)
	}
	if outer.pos < len(outer.prefix) {
		// while replaying a prefix the outer decisions are fixed; merging is still deterministic
	}
	baseDepth := i.solver.Depth()
	savedFrame, savedDepth := i.curFrame, i.depth
	i.mergeDepth++
	defer func() {
		i.mergeDepth--
		i.path = outer
		i.curFrame, i.depth = savedFrame, savedDepth
		i.solver.PopTo(baseDepth)
		i.reassertDefs()
		if r := recover(); r != nil {
			if _, isAbort := r.(mergeAbort); isAbort {
				i.mergeAborts++
				res, ok = nil, false
				return
			}
			panic(r)
		}
	}()
	type item struct {
		prefix []Decision
		model  map[string]uint64
	}
	var m0 map[string]uint64
	if outer.modelValid {
		m0 = outer.model
	}
	work := []item{{nil, m0}}
	var conds []*smt.Term
	var vals []value
	for len(work) > 0 {
		it := work[len(work)-1]
		work = work[:len(work)-1]
		if len(conds) >= 24 {
			panic(mergeAbort{"too many nested paths"})
		}
		sub := &pathState{
			prefix:     it.prefix,
			model:      it.model,
			itemModel:  it.model,
			modelValid: it.model != nil && len(it.prefix) == 0,
			reached:    outer.reached,
			assertHit:  outer.assertHit,
			nondets:    outer.nondets,
			nondetSeq:  outer.nondetSeq,
			steps:      outer.steps,
			parent:     outer,
			nested:     true,
			pcHash:     outer.pcHash,
			aux:        outer.aux,
		}
		i.path = sub
		i.solver.PopTo(baseDepth)
		i.solver.Push()
		i.reassertDefs()
		var rv value
		func() {
			defer func() {
				if r := recover(); r != nil {
					switch r.(type) {
					case targetPanic:
						panic(mergeAbort{"callee panics on some path"})
					}
					panic(r)
				}
			}()
			rv = callSSAbody(i, caller, fn, args, nil)
		}()
		outer.steps = sub.steps
		outer.aux = sub.aux
		if len(sub.nondets) != len(outer.nondets) {
			panic(mergeAbort{"callee creates nondeterministic inputs"})
		}
		// path condition of this nested path
		cond := i.ctx.True
		for _, t := range sub.localPC {
			cond = i.ctx.And(cond, t)
		}
		conds = append(conds, cond)
		vals = append(vals, rv)
		for _, ch := range sub.children {
			work = append(work, item{ch.Prefix, ch.Model})
		}
		outer.symBranch += 0
	}
	i.path = outer
	i.solver.PopTo(baseDepth)
	i.reassertDefs()
	if len(vals) == 1 {
		if memo {
			if outer.memo == nil {
				outer.memo = map[string]value{}
			}
			outer.memo[mkey] = vals[0]
			i.storeCross(xkey, vals[0])
		}
		return vals[0], true
	}
	merged, mok := i.mergeValues(fn.Signature.Results(), conds, vals)
	if !mok {
		i.mergeAborts++
		return nil, false
	}
	i.merges++
	if memo {
		if outer.memo == nil {
			outer.memo = map[string]value{}
		}
		outer.memo[mkey] = merged
		i.storeCross(xkey, merged)
	}
	return merged, true
}

// mergeValues builds ite(c0, v0, ite(c1, v1, ... vn)).
func (i *interpreter) mergeValues(t types.Type, conds []*smt.Term, vals []value) (value, bool) {
	switch v0 := vals[0].(type) {
	case tuple:
		tt, ok := t.(*types.Tuple)
		if !ok {
			return nil, false
		}
		out := make(tuple, len(v0))
		for k := range v0 {
			col := make([]value, len(vals))
			for j := range vals {
				col[j] = vals[j].(tuple)[k]
			}
			m, ok := i.mergeValues(tt.At(k).Type(), conds, col)
			if !ok {
				return nil, false
			}
			out[k] = m
		}
		return out, true
	case structure:
		st, ok := t.Underlying().(*types.Struct)
		if !ok {
			if tt, isT := t.(*types.Tuple); isT && tt.Len() == 1 {
				return i.mergeValues(tt.At(0).Type(), conds, vals)
			}
			return nil, false
		}
		out := make(structure, len(v0))
		for k := range v0 {
			col := make([]value, len(vals))
			for j := range vals {
				col[j] = vals[j].(structure)[k]
			}
			m, ok := i.mergeValues(st.Field(k).Type(), conds, col)
			if !ok {
				return nil, false
			}
			out[k] = m
		}
		return out, true
	case array:
		at, ok := t.Underlying().(*types.Array)
		if !ok {
			return nil, false
		}
		out := make(array, len(v0))
		for k := range v0 {
			col := make([]value, len(vals))
			for j := range vals {
				col[j] = vals[j].(array)[k]
			}
			m, ok := i.mergeValues(at.Elem(), conds, col)
			if !ok {
				return nil, false
			}
			out[k] = m
		}
		return out, true
	}
	if tt, isT := t.(*types.Tuple); isT && tt.Len() == 1 {
		t = tt.At(0).Type()
	}
	// all identical?
	same := true
	for _, v := range vals[1:] {
		if !identicalValue(vals[0], v) {
			same = false
			break
		}
	}
	if same {
		return vals[0], true
	}
	if isStr(vals[0]) {
		n := strLen(vals[0])
		for _, v := range vals {
			if !isStr(v) || strLen(v) != n {
				return nil, false
			}
		}
		out := make([]value, n)
		for k := 0; k < n; k++ {
			acc := i.toTerm(strBytes(vals[len(vals)-1])[k])
			for j := len(vals) - 2; j >= 0; j-- {
				acc = i.ctx.Ite(conds[j], i.toTerm(strBytes(vals[j])[k]), acc)
			}
			out[k] = norm(types.Typ[types.Uint8], acc)
		}
		return mkstr(out), true
	}
	b, ok := t.Underlying().(*types.Basic)
	if !ok || b.Info()&(types.IsInteger|types.IsBoolean) == 0 {
		return nil, false
	}
	acc := i.toTerm(vals[len(vals)-1])
	for j := len(vals) - 2; j >= 0; j-- {
		acc = i.ctx.Ite(conds[j], i.toTerm(vals[j]), acc)
	}
	if acc.W == 0 {
		return normBool(acc), true
	}
	return norm(t, acc), true
}

func identicalValue(a, b value) bool {
	switch x := a.(type) {
	case *smt.Term:
		y, ok := b.(*smt.Term)
		return ok && x == y
	case *value:
		y, ok := b.(*value)
		return ok && x == y
	case string:
		y, ok := b.(string)
		return ok && x == y
	case bool, int, int8, int16, int32, int64, uint, uint8, uint16, uint32, uint64, uintptr, float32, float64:
		return a == b
	case nil:
		return b == nil
	}
	return false
}

func (i *interpreter) storeCross(key string, v value) {
	if key == "" {
		return
	}
	if i.crossMemo == nil || len(i.crossMemo) > 300000 {
		i.crossMemo = map[string]value{}
	}
	i.crossMemo[key] = v
}
