// Copyright 2013 The Go Authors. All rights reserved.
// Use of this source code is governed by a BSD-style
// license that can be found in the LICENSE file.

package interp

import (
	"fmt"
	"go/constant"
	"go/token"
	"go/types"
	"unsafe"

	"golang.org/x/tools/go/ssa"
)

// If the target program panics, the interpreter panics with this type.
type targetPanic struct {
	v value
}

func (p targetPanic) String() string {
	return toString(p.v)
}

// If the target program calls exit, the interpreter panics with this type.
type exitPanic int

// constValue returns the value of the constant with the
// dynamic type tag appropriate for c.Type().
func constValue(c *ssa.Const) value {
	if c.Value == nil {
		return zero(c.Type()) // typed zero
	}
	// c is not a type parameter so it's underlying type is basic.

	if t, ok := c.Type().Underlying().(*types.Basic); ok {
		// TODO(adonovan): eliminate untyped constants from SSA form.
		switch t.Kind() {
		case types.Bool, types.UntypedBool:
			return constant.BoolVal(c.Value)
		case types.Int, types.UntypedInt:
			// Assume sizeof(int) is same on host and target.
			return int(c.Int64())
		case types.Int8:
			return int8(c.Int64())
		case types.Int16:
			return int16(c.Int64())
		case types.Int32, types.UntypedRune:
			return int32(c.Int64())
		case types.Int64:
			return c.Int64()
		case types.Uint:
			// Assume sizeof(uint) is same on host and target.
			return uint(c.Uint64())
		case types.Uint8:
			return uint8(c.Uint64())
		case types.Uint16:
			return uint16(c.Uint64())
		case types.Uint32:
			return uint32(c.Uint64())
		case types.Uint64:
			return c.Uint64()
		case types.Uintptr:
			// Assume sizeof(uintptr) is same on host and target.
			return uintptr(c.Uint64())
		case types.Float32:
			return float32(c.Float64())
		case types.Float64, types.UntypedFloat:
			return c.Float64()
		case types.Complex64:
			return complex64(c.Complex128())
		case types.Complex128, types.UntypedComplex:
			return c.Complex128()
		case types.String, types.UntypedString:
			if c.Value.Kind() == constant.String {
				return constant.StringVal(c.Value)
			}
			return string(rune(c.Int64()))
		}
	}

	panic(fmt.Sprintf("constValue: %s", c))
}

// fitsInt returns true if x fits in type int according to sizes.
func fitsInt(x int64, sizes types.Sizes) bool {
	intSize := sizes.Sizeof(types.Typ[types.Int])
	if intSize < sizes.Sizeof(types.Typ[types.Int64]) {
		maxInt := int64(1)<<((intSize*8)-1) - 1
		minInt := -int64(1) << ((intSize * 8) - 1)
		return minInt <= x && x <= maxInt
	}
	return true
}

// asInt64 converts x, which must be an integer, to an int64.
//
// Callers that need a value directly usable as an int should combine this with fitsInt().
func asInt64(x value) int64 {
	switch x := x.(type) {
	case int:
		return int64(x)
	case int8:
		return int64(x)
	case int16:
		return int64(x)
	case int32:
		return int64(x)
	case int64:
		return x
	case uint:
		return int64(x)
	case uint8:
		return int64(x)
	case uint16:
		return int64(x)
	case uint32:
		return int64(x)
	case uint64:
		return int64(x)
	case uintptr:
		return int64(x)
	}
	panic(fmt.Sprintf("cannot convert %T to int64", x))
}

// asUint64 converts x, which must be an unsigned integer, to a uint64
// suitable for use as a bitwise shift count.
func asUint64(x value) uint64 {
	switch x := x.(type) {
	case uint:
		return uint64(x)
	case uint8:
		return uint64(x)
	case uint16:
		return uint64(x)
	case uint32:
		return uint64(x)
	case uint64:
		return x
	case uintptr:
		return uint64(x)
	}
	panic(fmt.Sprintf("cannot convert %T to uint64", x))
}

// asUnsigned returns the value of x, which must be an integer type, as its equivalent unsigned type,
// and returns true if x is non-negative.
func asUnsigned(x value) (value, bool) {
	switch x := x.(type) {
	case int:
		return uint(x), x >= 0
	case int8:
		return uint8(x), x >= 0
	case int16:
		return uint16(x), x >= 0
	case int32:
		return uint32(x), x >= 0
	case int64:
		return uint64(x), x >= 0
	case uint, uint8, uint16, uint32, uint64, uintptr:
		return x, true
	}
	panic(fmt.Sprintf("cannot convert %T to unsigned", x))
}

// zero returns a new "zero" value of the specified type.
func zero(t types.Type) value {
	switch t := t.(type) {
	case *types.Basic:
		if t.Kind() == types.UntypedNil {
			panic("untyped nil has no zero value")
		}
		if t.Info()&types.IsUntyped != 0 {
			// TODO(adonovan): make it an invariant that
			// this is unreachable.  Currently some
			// constants have 'untyped' types when they
			// should be defaulted by the typechecker.
			t = types.Default(t).(*types.Basic)
		}
		switch t.Kind() {
		case types.Bool:
			return false
		case types.Int:
			return int(0)
		case types.Int8:
			return int8(0)
		case types.Int16:
			return int16(0)
		case types.Int32:
			return int32(0)
		case types.Int64:
			return int64(0)
		case types.Uint:
			return uint(0)
		case types.Uint8:
			return uint8(0)
		case types.Uint16:
			return uint16(0)
		case types.Uint32:
			return uint32(0)
		case types.Uint64:
			return uint64(0)
		case types.Uintptr:
			return uintptr(0)
		case types.Float32:
			return float32(0)
		case types.Float64:
			return float64(0)
		case types.Complex64:
			return complex64(0)
		case types.Complex128:
			return complex128(0)
		case types.String:
			return ""
		case types.UnsafePointer:
			return unsafe.Pointer(nil)
		default:
			panic(fmt.Sprint("zero for unexpected type:", t))
		}
	case *types.Pointer:
		return (*value)(nil)
	case *types.Array:
		a := make(array, t.Len())
		for i := range a {
			a[i] = zero(t.Elem())
		}
		return a
	case *types.Named:
		return zero(t.Underlying())
	case *types.Alias:
		return zero(types.Unalias(t))
	case *types.Interface:
		return iface{} // nil type, methodset and value
	case *types.Slice:
		return []value(nil)
	case *types.Struct:
		s := make(structure, t.NumFields())
		for i := range s {
			s[i] = zero(t.Field(i).Type())
		}
		return s
	case *types.Tuple:
		if t.Len() == 0 {
			return nil
		}
		if t.Len() == 1 {
			return zero(t.At(0).Type())
		}
		s := make(tuple, t.Len())
		for i := range s {
			s[i] = zero(t.At(i).Type())
		}
		return s
	case *types.Chan:
		return (*channel)(nil)
	case *types.Map:
		return (*omap)(nil)
	case *types.Signature:
		return (*ssa.Function)(nil)
	}
	panic(fmt.Sprint("zero: unexpected ", t))
}

// binop implements all arithmetic and logical binary operators for
// numeric datatypes and strings.  Both operands must have identical
// dynamic type.
func concBinop(i *interpreter, op token.Token, t types.Type, x, y value) value {
	switch op {
	case token.ADD:
		switch x.(type) {
		case int:
			return x.(int) + y.(int)
		case int8:
			return x.(int8) + y.(int8)
		case int16:
			return x.(int16) + y.(int16)
		case int32:
			return x.(int32) + y.(int32)
		case int64:
			return x.(int64) + y.(int64)
		case uint:
			return x.(uint) + y.(uint)
		case uint8:
			return x.(uint8) + y.(uint8)
		case uint16:
			return x.(uint16) + y.(uint16)
		case uint32:
			return x.(uint32) + y.(uint32)
		case uint64:
			return x.(uint64) + y.(uint64)
		case uintptr:
			return x.(uintptr) + y.(uintptr)
		case float32:
			return x.(float32) + y.(float32)
		case float64:
			return x.(float64) + y.(float64)
		case complex64:
			return x.(complex64) + y.(complex64)
		case complex128:
			return x.(complex128) + y.(complex128)
		case string:
			return x.(string) + y.(string)
		}

	case token.SUB:
		switch x.(type) {
		case int:
			return x.(int) - y.(int)
		case int8:
			return x.(int8) - y.(int8)
		case int16:
			return x.(int16) - y.(int16)
		case int32:
			return x.(int32) - y.(int32)
		case int64:
			return x.(int64) - y.(int64)
		case uint:
			return x.(uint) - y.(uint)
		case uint8:
			return x.(uint8) - y.(uint8)
		case uint16:
			return x.(uint16) - y.(uint16)
		case uint32:
			return x.(uint32) - y.(uint32)
		case uint64:
			return x.(uint64) - y.(uint64)
		case uintptr:
			return x.(uintptr) - y.(uintptr)
		case float32:
			return x.(float32) - y.(float32)
		case float64:
			return x.(float64) - y.(float64)
		case complex64:
			return x.(complex64) - y.(complex64)
		case complex128:
			return x.(complex128) - y.(complex128)
		}

	case token.MUL:
		switch x.(type) {
		case int:
			return x.(int) * y.(int)
		case int8:
			return x.(int8) * y.(int8)
		case int16:
			return x.(int16) * y.(int16)
		case int32:
			return x.(int32) * y.(int32)
		case int64:
			return x.(int64) * y.(int64)
		case uint:
			return x.(uint) * y.(uint)
		case uint8:
			return x.(uint8) * y.(uint8)
		case uint16:
			return x.(uint16) * y.(uint16)
		case uint32:
			return x.(uint32) * y.(uint32)
		case uint64:
			return x.(uint64) * y.(uint64)
		case uintptr:
			return x.(uintptr) * y.(uintptr)
		case float32:
			return x.(float32) * y.(float32)
		case float64:
			return x.(float64) * y.(float64)
		case complex64:
			return x.(complex64) * y.(complex64)
		case complex128:
			return x.(complex128) * y.(complex128)
		}

	case token.QUO:
		switch x.(type) {
		case int:
			return x.(int) / y.(int)
		case int8:
			return x.(int8) / y.(int8)
		case int16:
			return x.(int16) / y.(int16)
		case int32:
			return x.(int32) / y.(int32)
		case int64:
			return x.(int64) / y.(int64)
		case uint:
			return x.(uint) / y.(uint)
		case uint8:
			return x.(uint8) / y.(uint8)
		case uint16:
			return x.(uint16) / y.(uint16)
		case uint32:
			return x.(uint32) / y.(uint32)
		case uint64:
			return x.(uint64) / y.(uint64)
		case uintptr:
			return x.(uintptr) / y.(uintptr)
		case float32:
			return x.(float32) / y.(float32)
		case float64:
			return x.(float64) / y.(float64)
		case complex64:
			return x.(complex64) / y.(complex64)
		case complex128:
			return x.(complex128) / y.(complex128)
		}

	case token.REM:
		switch x.(type) {
		case int:
			return x.(int) % y.(int)
		case int8:
			return x.(int8) % y.(int8)
		case int16:
			return x.(int16) % y.(int16)
		case int32:
			return x.(int32) % y.(int32)
		case int64:
			return x.(int64) % y.(int64)
		case uint:
			return x.(uint) % y.(uint)
		case uint8:
			return x.(uint8) % y.(uint8)
		case uint16:
			return x.(uint16) % y.(uint16)
		case uint32:
			return x.(uint32) % y.(uint32)
		case uint64:
			return x.(uint64) % y.(uint64)
		case uintptr:
			return x.(uintptr) % y.(uintptr)
		}

	case token.AND:
		switch x.(type) {
		case int:
			return x.(int) & y.(int)
		case int8:
			return x.(int8) & y.(int8)
		case int16:
			return x.(int16) & y.(int16)
		case int32:
			return x.(int32) & y.(int32)
		case int64:
			return x.(int64) & y.(int64)
		case uint:
			return x.(uint) & y.(uint)
		case uint8:
			return x.(uint8) & y.(uint8)
		case uint16:
			return x.(uint16) & y.(uint16)
		case uint32:
			return x.(uint32) & y.(uint32)
		case uint64:
			return x.(uint64) & y.(uint64)
		case uintptr:
			return x.(uintptr) & y.(uintptr)
		}

	case token.OR:
		switch x.(type) {
		case int:
			return x.(int) | y.(int)
		case int8:
			return x.(int8) | y.(int8)
		case int16:
			return x.(int16) | y.(int16)
		case int32:
			return x.(int32) | y.(int32)
		case int64:
			return x.(int64) | y.(int64)
		case uint:
			return x.(uint) | y.(uint)
		case uint8:
			return x.(uint8) | y.(uint8)
		case uint16:
			return x.(uint16) | y.(uint16)
		case uint32:
			return x.(uint32) | y.(uint32)
		case uint64:
			return x.(uint64) | y.(uint64)
		case uintptr:
			return x.(uintptr) | y.(uintptr)
		}

	case token.XOR:
		switch x.(type) {
		case int:
			return x.(int) ^ y.(int)
		case int8:
			return x.(int8) ^ y.(int8)
		case int16:
			return x.(int16) ^ y.(int16)
		case int32:
			return x.(int32) ^ y.(int32)
		case int64:
			return x.(int64) ^ y.(int64)
		case uint:
			return x.(uint) ^ y.(uint)
		case uint8:
			return x.(uint8) ^ y.(uint8)
		case uint16:
			return x.(uint16) ^ y.(uint16)
		case uint32:
			return x.(uint32) ^ y.(uint32)
		case uint64:
			return x.(uint64) ^ y.(uint64)
		case uintptr:
			return x.(uintptr) ^ y.(uintptr)
		}

	case token.AND_NOT:
		switch x.(type) {
		case int:
			return x.(int) &^ y.(int)
		case int8:
			return x.(int8) &^ y.(int8)
		case int16:
			return x.(int16) &^ y.(int16)
		case int32:
			return x.(int32) &^ y.(int32)
		case int64:
			return x.(int64) &^ y.(int64)
		case uint:
			return x.(uint) &^ y.(uint)
		case uint8:
			return x.(uint8) &^ y.(uint8)
		case uint16:
			return x.(uint16) &^ y.(uint16)
		case uint32:
			return x.(uint32) &^ y.(uint32)
		case uint64:
			return x.(uint64) &^ y.(uint64)
		case uintptr:
			return x.(uintptr) &^ y.(uintptr)
		}

	case token.SHL:
		u, ok := asUnsigned(y)
		if !ok {
			panic(targetPanic{i.runtimeErr("negative shift amount")})
		}
		y := asUint64(u)
		switch x.(type) {
		case int:
			return x.(int) << y
		case int8:
			return x.(int8) << y
		case int16:
			return x.(int16) << y
		case int32:
			return x.(int32) << y
		case int64:
			return x.(int64) << y
		case uint:
			return x.(uint) << y
		case uint8:
			return x.(uint8) << y
		case uint16:
			return x.(uint16) << y
		case uint32:
			return x.(uint32) << y
		case uint64:
			return x.(uint64) << y
		case uintptr:
			return x.(uintptr) << y
		}

	case token.SHR:
		u, ok := asUnsigned(y)
		if !ok {
			panic(targetPanic{i.runtimeErr("negative shift amount")})
		}
		y := asUint64(u)
		switch x.(type) {
		case int:
			return x.(int) >> y
		case int8:
			return x.(int8) >> y
		case int16:
			return x.(int16) >> y
		case int32:
			return x.(int32) >> y
		case int64:
			return x.(int64) >> y
		case uint:
			return x.(uint) >> y
		case uint8:
			return x.(uint8) >> y
		case uint16:
			return x.(uint16) >> y
		case uint32:
			return x.(uint32) >> y
		case uint64:
			return x.(uint64) >> y
		case uintptr:
			return x.(uintptr) >> y
		}

	case token.LSS:
		switch x.(type) {
		case int:
			return x.(int) < y.(int)
		case int8:
			return x.(int8) < y.(int8)
		case int16:
			return x.(int16) < y.(int16)
		case int32:
			return x.(int32) < y.(int32)
		case int64:
			return x.(int64) < y.(int64)
		case uint:
			return x.(uint) < y.(uint)
		case uint8:
			return x.(uint8) < y.(uint8)
		case uint16:
			return x.(uint16) < y.(uint16)
		case uint32:
			return x.(uint32) < y.(uint32)
		case uint64:
			return x.(uint64) < y.(uint64)
		case uintptr:
			return x.(uintptr) < y.(uintptr)
		case float32:
			return x.(float32) < y.(float32)
		case float64:
			return x.(float64) < y.(float64)
		case string:
			return x.(string) < y.(string)
		}

	case token.LEQ:
		switch x.(type) {
		case int:
			return x.(int) <= y.(int)
		case int8:
			return x.(int8) <= y.(int8)
		case int16:
			return x.(int16) <= y.(int16)
		case int32:
			return x.(int32) <= y.(int32)
		case int64:
			return x.(int64) <= y.(int64)
		case uint:
			return x.(uint) <= y.(uint)
		case uint8:
			return x.(uint8) <= y.(uint8)
		case uint16:
			return x.(uint16) <= y.(uint16)
		case uint32:
			return x.(uint32) <= y.(uint32)
		case uint64:
			return x.(uint64) <= y.(uint64)
		case uintptr:
			return x.(uintptr) <= y.(uintptr)
		case float32:
			return x.(float32) <= y.(float32)
		case float64:
			return x.(float64) <= y.(float64)
		case string:
			return x.(string) <= y.(string)
		}

	case token.EQL:
		return i.eqnil(t, x, y)

	case token.NEQ:
		return i.notV(i.eqnil(t, x, y))

	case token.GTR:
		switch x.(type) {
		case int:
			return x.(int) > y.(int)
		case int8:
			return x.(int8) > y.(int8)
		case int16:
			return x.(int16) > y.(int16)
		case int32:
			return x.(int32) > y.(int32)
		case int64:
			return x.(int64) > y.(int64)
		case uint:
			return x.(uint) > y.(uint)
		case uint8:
			return x.(uint8) > y.(uint8)
		case uint16:
			return x.(uint16) > y.(uint16)
		case uint32:
			return x.(uint32) > y.(uint32)
		case uint64:
			return x.(uint64) > y.(uint64)
		case uintptr:
			return x.(uintptr) > y.(uintptr)
		case float32:
			return x.(float32) > y.(float32)
		case float64:
			return x.(float64) > y.(float64)
		case string:
			return x.(string) > y.(string)
		}

	case token.GEQ:
		switch x.(type) {
		case int:
			return x.(int) >= y.(int)
		case int8:
			return x.(int8) >= y.(int8)
		case int16:
			return x.(int16) >= y.(int16)
		case int32:
			return x.(int32) >= y.(int32)
		case int64:
			return x.(int64) >= y.(int64)
		case uint:
			return x.(uint) >= y.(uint)
		case uint8:
			return x.(uint8) >= y.(uint8)
		case uint16:
			return x.(uint16) >= y.(uint16)
		case uint32:
			return x.(uint32) >= y.(uint32)
		case uint64:
			return x.(uint64) >= y.(uint64)
		case uintptr:
			return x.(uintptr) >= y.(uintptr)
		case float32:
			return x.(float32) >= y.(float32)
		case float64:
			return x.(float64) >= y.(float64)
		case string:
			return x.(string) >= y.(string)
		}
	}
	panic(fmt.Sprintf("invalid binary op: %T %s %T", x, op, y))
}

// eqnil returns the comparison x == y using the equivalence relation
// appropriate for type t (bool or Bool term).
func (i *interpreter) eqnil(t types.Type, x, y value) value {
	switch t.Underlying().(type) {
	case *types.Map, *types.Signature, *types.Slice:
		// Since these types don't support comparison,
		// one of the operands must be a literal nil.
		return isNilRef(x) == isNilRef(y)
	}
	return i.equalsV(t, x, y)
}

func isNilRef(x value) bool {
	switch x := x.(type) {
	case *omap:
		return x == nil
	case *ssa.Function:
		return x == nil
	case *closure:
		return x == nil
	case hostFunc:
		return x == nil
	case []value:
		return x == nil
	}
	panic(fmt.Sprintf("isNilRef: illegal dynamic type: %T", x))
}

func concUnop(i *interpreter, instr *ssa.UnOp, x value) value {
	switch instr.Op {
	case token.ARROW: // receive
		v, ok := i.chanRecv(x.(*channel), instr.X.Type().Underlying().(*types.Chan).Elem())
		if instr.CommaOk {
			return tuple{v, ok}
		}
		return v
	case token.SUB:
		switch x := x.(type) {
		case int:
			return -x
		case int8:
			return -x
		case int16:
			return -x
		case int32:
			return -x
		case int64:
			return -x
		case uint:
			return -x
		case uint8:
			return -x
		case uint16:
			return -x
		case uint32:
			return -x
		case uint64:
			return -x
		case uintptr:
			return -x
		case float32:
			return -x
		case float64:
			return -x
		case complex64:
			return -x
		case complex128:
			return -x
		}
	case token.MUL:
		switch p := x.(type) {
		case *value:
			if p == nil {
				panic(targetPanic{i.runtimeErr("invalid memory address or nil pointer dereference")})
			}
			return load(deref(instr.X.Type()), p)
		case *symPtr:
			return i.symLoad(p, deref(instr.X.Type()))
		}
		panic(fmt.Sprintf("load through %T", x))
	case token.NOT:
		return !x.(bool)
	case token.XOR:
		switch x := x.(type) {
		case int:
			return ^x
		case int8:
			return ^x
		case int16:
			return ^x
		case int32:
			return ^x
		case int64:
			return ^x
		case uint:
			return ^x
		case uint8:
			return ^x
		case uint16:
			return ^x
		case uint32:
			return ^x
		case uint64:
			return ^x
		case uintptr:
			return ^x
		}
	}
	panic(fmt.Sprintf("invalid unary op %s %T", instr.Op, x))
}

// typeAssert checks whether dynamic type of itf is instr.AssertedType.
// It returns the extracted value on success, and panics on failure,
// unless instr.CommaOk, in which case it always returns a "value,ok" tuple.
func typeAssert(i *interpreter, instr *ssa.TypeAssert, itf iface) value {
	var v value
	err := ""
	if itf.t == nil {
		err = fmt.Sprintf("interface conversion: interface is nil, not %s", instr.AssertedType)

	} else if idst, ok := instr.AssertedType.Underlying().(*types.Interface); ok {
		v = itf
		err = checkInterface(i, idst, itf)

	} else if types.Identical(itf.t, instr.AssertedType) {
		v = itf.v // extract value

	} else {
		err = fmt.Sprintf("interface conversion: interface is %s, not %s", itf.t, instr.AssertedType)
	}
	// Note: if instr.Underlying==true ever becomes reachable from interp check that
	// types.Identical(itf.t.Underlying(), instr.AssertedType)

	if err != "" {
		if !instr.CommaOk {
			panic(err)
		}
		return tuple{zero(instr.AssertedType), false}
	}
	if instr.CommaOk {
		return tuple{v, true}
	}
	return v
}

// widen widens a basic typed value x to the widest type of its
// category, one of:
//
//	bool, int64, uint64, float64, complex128, string.
//
// This is inefficient but reduces the size of the cross-product of
// cases we have to consider.
func widen(x value) value {
	switch y := x.(type) {
	case bool, int64, uint64, float64, complex128, string, unsafe.Pointer:
		return x
	case int:
		return int64(y)
	case int8:
		return int64(y)
	case int16:
		return int64(y)
	case int32:
		return int64(y)
	case uint:
		return uint64(y)
	case uint8:
		return uint64(y)
	case uint16:
		return uint64(y)
	case uint32:
		return uint64(y)
	case uintptr:
		return uint64(y)
	case float32:
		return float64(y)
	case complex64:
		return complex128(y)
	}
	panic(fmt.Sprintf("cannot widen %T", x))
}

// conv converts the value x of type t_src to type t_dst and returns
// the result.
// Possible cases are described with the ssa.Convert operator.
func conv(t_dst, t_src types.Type, x value) value {
	return concConv(t_dst, t_src, x)
}

func concConv(t_dst, t_src types.Type, x value) value {
	ut_src := t_src.Underlying()
	ut_dst := t_dst.Underlying()

	// Destination type is not an "untyped" type.
	if b, ok := ut_dst.(*types.Basic); ok && b.Info()&types.IsUntyped != 0 {
		panic("oops: conversion to 'untyped' type: " + b.String())
	}

	// Nor is it an interface type.
	if _, ok := ut_dst.(*types.Interface); ok {
		if _, ok := ut_src.(*types.Interface); ok {
			panic("oops: Convert should be ChangeInterface")
		} else {
			panic("oops: Convert should be MakeInterface")
		}
	}

	// Remaining conversions:
	//    + untyped string/number/bool constant to a specific
	//      representation.
	//    + conversions between non-complex numeric types.
	//    + conversions between complex numeric types.
	//    + integer/[]byte/[]rune -> string.
	//    + string -> []byte/[]rune.
	//
	// All are treated the same: first we extract the value to the
	// widest representation (int64, uint64, float64, complex128,
	// or string), then we convert it to the desired type.

	switch ut_src := ut_src.(type) {
	case *types.Pointer:
		switch ut_dst := ut_dst.(type) {
		case *types.Basic:
			// *value to unsafe.Pointer?
			if ut_dst.Kind() == types.UnsafePointer {
				return unsafe.Pointer(x.(*value))
			}
		}

	case *types.Slice:
		// []byte or []rune -> string
		switch ut_src.Elem().Underlying().(*types.Basic).Kind() {
		case types.Byte:
			x := x.([]value)
			b := make([]byte, 0, len(x))
			for i := range x {
				b = append(b, x[i].(byte))
			}
			return string(b)

		case types.Rune:
			x := x.([]value)
			r := make([]rune, 0, len(x))
			for i := range x {
				r = append(r, x[i].(rune))
			}
			return string(r)
		}

	case *types.Basic:
		x = widen(x)

		// integer -> string?
		if ut_src.Info()&types.IsInteger != 0 {
			if ut_dst, ok := ut_dst.(*types.Basic); ok && ut_dst.Kind() == types.String {
				return fmt.Sprintf("%c", x)
			}
		}

		// string -> []rune, []byte or string?
		if s, ok := x.(string); ok {
			switch ut_dst := ut_dst.(type) {
			case *types.Slice:
				var res []value
				switch ut_dst.Elem().Underlying().(*types.Basic).Kind() {
				case types.Rune:
					for _, r := range []rune(s) {
						res = append(res, r)
					}
					return res
				case types.Byte:
					for _, b := range []byte(s) {
						res = append(res, b)
					}
					return res
				}
			case *types.Basic:
				if ut_dst.Kind() == types.String {
					return x.(string)
				}
			}
			break // fail: no other conversions for string
		}

		// unsafe.Pointer -> *value
		if ut_src.Kind() == types.UnsafePointer {
			// TODO(adonovan): this is wrong and cannot
			// really be fixed with the current design.
			//
			// return (*value)(x.(unsafe.Pointer))
			// creates a new pointer of a different
			// type but the underlying interface value
			// knows its "true" type and so cannot be
			// meaningfully used through the new pointer.
			//
			// To make this work, the interpreter needs to
			// simulate the memory layout of a real
			// compiled implementation.
			//
			// To at least preserve type-safety, we'll
			// just return the zero value of the
			// destination type.
			if up, ok := x.(unsafe.Pointer); ok {
				return (*value)(up)
			}
			return zero(t_dst)
		}

		// Conversions between complex numeric types?
		if ut_src.Info()&types.IsComplex != 0 {
			switch ut_dst.(*types.Basic).Kind() {
			case types.Complex64:
				return complex64(x.(complex128))
			case types.Complex128:
				return x.(complex128)
			}
			break // fail: no other conversions for complex
		}

		// Conversions between non-complex numeric types?
		if ut_src.Info()&types.IsNumeric != 0 {
			kind := ut_dst.(*types.Basic).Kind()
			switch x := x.(type) {
			case int64: // signed integer -> numeric?
				switch kind {
				case types.Int:
					return int(x)
				case types.Int8:
					return int8(x)
				case types.Int16:
					return int16(x)
				case types.Int32:
					return int32(x)
				case types.Int64:
					return int64(x)
				case types.Uint:
					return uint(x)
				case types.Uint8:
					return uint8(x)
				case types.Uint16:
					return uint16(x)
				case types.Uint32:
					return uint32(x)
				case types.Uint64:
					return uint64(x)
				case types.Uintptr:
					return uintptr(x)
				case types.Float32:
					return float32(x)
				case types.Float64:
					return float64(x)
				}

			case uint64: // unsigned integer -> numeric?
				switch kind {
				case types.Int:
					return int(x)
				case types.Int8:
					return int8(x)
				case types.Int16:
					return int16(x)
				case types.Int32:
					return int32(x)
				case types.Int64:
					return int64(x)
				case types.Uint:
					return uint(x)
				case types.Uint8:
					return uint8(x)
				case types.Uint16:
					return uint16(x)
				case types.Uint32:
					return uint32(x)
				case types.Uint64:
					return uint64(x)
				case types.Uintptr:
					return uintptr(x)
				case types.Float32:
					return float32(x)
				case types.Float64:
					return float64(x)
				}

			case float64: // floating point -> numeric?
				switch kind {
				case types.Int:
					return int(x)
				case types.Int8:
					return int8(x)
				case types.Int16:
					return int16(x)
				case types.Int32:
					return int32(x)
				case types.Int64:
					return int64(x)
				case types.Uint:
					return uint(x)
				case types.Uint8:
					return uint8(x)
				case types.Uint16:
					return uint16(x)
				case types.Uint32:
					return uint32(x)
				case types.Uint64:
					return uint64(x)
				case types.Uintptr:
					return uintptr(x)
				case types.Float32:
					return float32(x)
				case types.Float64:
					return float64(x)
				}
			}
		}
	}

	panic(fmt.Sprintf("unsupported conversion: %s  -> %s, dynamic type %T", t_src, t_dst, x))
}

// sliceToArrayPointer converts the value x of type slice to type t_dst
// a pointer to array and returns the result.
func sliceToArrayPointer(t_dst, t_src types.Type, x value) value {
	if _, ok := t_src.Underlying().(*types.Slice); ok {
		if ptr, ok := t_dst.Underlying().(*types.Pointer); ok {
			if arr, ok := ptr.Elem().Underlying().(*types.Array); ok {
				x := x.([]value)
				if arr.Len() > int64(len(x)) {
					panic("array length is greater than slice length")
				}
				if x == nil {
					return zero(t_dst)
				}
				v := value(array(x[:arr.Len()]))
				return &v
			}
		}
	}

	panic(fmt.Sprintf("unsupported conversion: %s  -> %s, dynamic type %T", t_src, t_dst, x))
}

// checkInterface checks that the method set of x implements the
// interface itype.
// On success it returns "", on failure, an error message.
func checkInterface(i *interpreter, itype *types.Interface, x iface) string {
	if meth, _ := types.MissingMethod(x.t, itype, true); meth != nil {
		return fmt.Sprintf("interface conversion: %v is not %v: missing method %s",
			x.t, itype, meth.Name())
	}
	return "" // ok
}
