package interp

// fmt, errors and reflect.DeepEqual intrinsics.

import (
	"fmt"
	"go/types"
	"strings"

	"golang.org/x/tools/go/ssa"

	"symgo/smt"
)

func init() {
	for k, v := range map[string]externalFn{
		"fmt.Sprintf":  func(fr *frame, a []value) value { return fr.i.sprintf(fr, a[0], a[1].([]value)) },
		"fmt.Errorf":   extErrorf,
		"fmt.Sprint":   func(fr *frame, a []value) value { return fr.i.sprint(fr, a[0].([]value), false) },
		"fmt.Sprintln": func(fr *frame, a []value) value { return fr.i.sprint(fr, a[0].([]value), true) },
		"fmt.Fprintf": func(fr *frame, a []value) value {
			s := fr.i.sprintf(fr, a[1], a[2].([]value))
			return fr.i.writeTo(fr, a[0], s)
		},
		"fmt.Fprint": func(fr *frame, a []value) value {
			return fr.i.writeTo(fr, a[0], fr.i.sprint(fr, a[1].([]value), false))
		},
		"fmt.Fprintln": func(fr *frame, a []value) value {
			return fr.i.writeTo(fr, a[0], fr.i.sprint(fr, a[1].([]value), true))
		},
		"fmt.Printf":  func(fr *frame, a []value) value { return tuple{0, iface{}} },
		"fmt.Println": func(fr *frame, a []value) value { return tuple{0, iface{}} },
		"fmt.Print":   func(fr *frame, a []value) value { return tuple{0, iface{}} },
		"errors.Is":   extErrorsIs,
		"errors.As":   extErrorsAs,
		"reflect.DeepEqual": func(fr *frame, a []value) value {
			return fr.i.deepEqual(a[0], a[1])
		},
	} {
		externals[k] = v
	}
}

// writeTo calls w.Write(bytes of s).
func (i *interpreter) writeTo(fr *frame, w value, s value) value {
	wi := w.(iface)
	if wi.t == nil {
		panic(targetPanic{i.runtimeErr("nil io.Writer")})
	}
	m := i.findMethod(wi.t, "Write")
	if m == nil {
		panic(unsupported("Fprintf target without Write method"))
	}
	return call(i, fr, 0, m, []value{wi.v, strBytes(s)})
}

// methodString calls a niladic string method (Error/String) on v if its type has one.
func (i *interpreter) methodString(fr *frame, v iface, names ...string) (value, bool) {
	if v.t == nil {
		return nil, false
	}
	for _, name := range names {
		m := i.findMethod(v.t, name)
		if m == nil {
			continue
		}
		sig := m.Signature
		if sig.Params().Len() != 0 || sig.Results().Len() != 1 {
			continue
		}
		if b, ok := sig.Results().At(0).Type().Underlying().(*types.Basic); !ok || b.Kind() != types.String {
			continue
		}
		// nil pointer receivers: print <nil> like fmt does
		if p, ok := v.v.(*value); ok && p == nil {
			return "<nil>", true
		}
		if (i.opaqueInts || isTimeType(v.t)) && hasSymbolic(v.v, 0) {
			// error text: do not format symbolic values; the calendar rendering of a symbolic
			// instant is never formatted (out of the solvers' reach and never the subject)
			i.opaqueFmt++
			return "<sym>", true
		}
		return call(i, fr, 0, m, []value{v.v}), true
	}
	return nil, false
}

// hostArg converts an interpreter value to a host value usable with fmt for the given verb.
// ok=false means the value (or part of it) is symbolic.
func (i *interpreter) hostArg(fr *frame, v value, verb byte) (interface{}, bool) {
	switch x := v.(type) {
	case iface:
		if x.t == nil {
			return nil, true
		}
		if verb == 's' || verb == 'v' || verb == 'q' {
			if s, ok := i.methodString(fr, x, "Error", "String"); ok {
				if hs, ok := s.(string); ok {
					return hs, true
				}
				return nil, false
			}
		}
		return i.hostOf(fr, x.v, x.t)
	}
	return i.hostOf(fr, v, nil)
}

func (i *interpreter) hostOf(fr *frame, v value, t types.Type) (interface{}, bool) {
	switch x := v.(type) {
	case *smt.Term, sstr:
		return nil, false
	case bool, int, int8, int16, int32, int64, uint, uint8, uint16, uint32, uint64, uintptr, float32, float64, complex64, complex128, string:
		return x, true
	case []value:
		if t != nil {
			if st, ok := t.Underlying().(*types.Slice); ok {
				if b, ok := st.Elem().Underlying().(*types.Basic); ok {
					switch b.Kind() {
					case types.Uint8:
						out := make([]byte, len(x))
						for k, e := range x {
							c, ok := e.(uint8)
							if !ok {
								return nil, false
							}
							out[k] = c
						}
						return out, true
					case types.String:
						out := make([]string, len(x))
						for k, e := range x {
							c, ok := e.(string)
							if !ok {
								return nil, false
							}
							out[k] = c
						}
						return out, true
					case types.Int:
						out := make([]int, len(x))
						for k, e := range x {
							c, ok := e.(int)
							if !ok {
								return nil, false
							}
							out[k] = c
						}
						return out, true
					}
				}
				out := make([]interface{}, len(x))
				for k, e := range x {
					h, ok := i.hostElem(fr, e, st.Elem())
					if !ok {
						return nil, false
					}
					out[k] = h
				}
				return out, true
			}
		}
		return toString(x), true
	case *value:
		if x == nil {
			return nil, true
		}
		return fmt.Sprintf("%p", x), true
	case structure, array, *omap:
		return toString(x), true
	case nil:
		return nil, true
	}
	return toString(v), true
}

func (i *interpreter) hostElem(fr *frame, e value, t types.Type) (interface{}, bool) {
	if _, ok := t.Underlying().(*types.Interface); ok {
		return i.hostArg(fr, e, 'v')
	}
	if s, ok := i.methodString(fr, iface{t: t, v: e}, "Error", "String"); ok {
		hs, ok := s.(string)
		return hs, ok
	}
	return i.hostOf(fr, e, t)
}

// sprintf formats with a concrete format string.  Arguments with symbolic content are
// spliced for %s/%v/%q (strings) and become opaque placeholders otherwise.
func (i *interpreter) sprintf(fr *frame, format value, args []value) value {
	f, ok := format.(string)
	if !ok {
		i.opaqueFmt++
		return "<symbolic format>"
	}
	var out []value
	emit := func(s string) {
		for k := 0; k < len(s); k++ {
			out = append(out, s[k])
		}
	}
	argi := 0
	for p := 0; p < len(f); {
		if f[p] != '%' {
			q := strings.IndexByte(f[p:], '%')
			if q < 0 {
				q = len(f) - p
			}
			emit(f[p : p+q])
			p += q
			continue
		}
		// parse one verb
		q := p + 1
		for q < len(f) && strings.IndexByte("+-# 0123456789.*[]", f[q]) >= 0 {
			q++
		}
		if q >= len(f) {
			emit(f[p:])
			break
		}
		verb := f[q]
		spec := f[p : q+1]
		p = q + 1
		if verb == '%' {
			emit("%")
			continue
		}
		if strings.Contains(spec, "*") || strings.Contains(spec, "[") {
			// rare: hand the rest to the host with best-effort args
			i.opaqueFmt++
			emit("<fmt:" + spec + ">")
			argi++
			continue
		}
		if argi >= len(args) {
			emit("%!" + string(verb) + "(MISSING)")
			continue
		}
		arg := args[argi]
		argi++
		if verb == 'w' {
			spec = spec[:len(spec)-1] + "v"
			verb = 'v'
		}
		h, ok := i.hostArg(fr, arg, verb)
		if ok {
			emit(fmt.Sprintf(spec, h))
			continue
		}
		// symbolic argument
		av := arg
		if ai, isI := arg.(iface); isI {
			av = ai.v
			if s, ok := i.methodString(fr, ai, "Error", "String"); ok && (verb == 's' || verb == 'v' || verb == 'q') {
				av = s
			}
		}
		if tm, isT := av.(*smt.Term); isT && tm.W > 0 && (spec == "%d" || spec == "%v") && !i.opaqueInts {
			if ai, isI := arg.(iface); isI {
				if w, signed, ok := intInfo(ai.t); ok {
					sp := i.prog.ImportedPackage("strconv")
					var r value
					if signed {
						r = call(i, fr, 0, sp.Func("FormatInt"), []value{norm(types.Typ[types.Int64], i.ctx.Resize(tm, 64, true)), 10})
					} else {
						r = call(i, fr, 0, sp.Func("FormatUint"), []value{norm(types.Typ[types.Uint64], i.ctx.Resize(tm, 64, false)), 10})
					}
					_ = w
					out = append(out, strBytes(r)...)
					continue
				}
			}
		}
		switch x := av.(type) {
		case sstr:
			switch {
			case spec == "%s" || spec == "%v":
				out = append(out, []value(x)...)
				continue
			case spec == "%q":
				// quoting of symbolic bytes: exact only for bytes that need no escape; mark opaque otherwise
				out = append(out, uint8('"'))
				out = append(out, []value(x)...)
				out = append(out, uint8('"'))
				i.opaqueFmt++
				continue
			}
		}
		i.opaqueFmt++
		emit(fmt.Sprintf("<sym:%s>", spec))
	}
	return mkstr(out)
}

func (i *interpreter) sprint(fr *frame, args []value, ln bool) value {
	var out []value
	emit := func(s string) {
		for k := 0; k < len(s); k++ {
			out = append(out, s[k])
		}
	}
	prevString := true
	for k, a := range args {
		isString := false
		if ai, ok := a.(iface); ok {
			isString = isStr(ai.v)
		}
		if k > 0 && (ln || (!isString && !prevString)) {
			emit(" ")
		}
		prevString = isString
		h, ok := i.hostArg(fr, a, 'v')
		if ok {
			emit(fmt.Sprint(h))
			continue
		}
		av := a
		if ai, isI := a.(iface); isI {
			av = ai.v
			if s, ok := i.methodString(fr, ai, "Error", "String"); ok {
				av = s
			}
		}
		if x, ok := av.(sstr); ok {
			out = append(out, []value(x)...)
			continue
		}
		i.opaqueFmt++
		emit("<sym>")
	}
	if ln {
		emit("\n")
	}
	return mkstr(out)
}

// extErrorf builds *fmt.wrapError for a single %w, *fmt.wrapErrors for several, else *fmt.fmtError... (errors.errorString).
func extErrorf(fr *frame, a []value) value {
	i := fr.i
	args := a[1].([]value)
	// error texts: symbolic integers are rendered as opaque placeholders rather than
	// forking on their digit count (no assertion inspects error text)
	saved := i.opaqueInts
	i.opaqueInts = true
	msg := i.sprintf(fr, a[0], args)
	i.opaqueInts = saved
	f, _ := a[0].(string)
	// find %w operands
	var wrapped []value
	argi := 0
	for p := 0; p < len(f); p++ {
		if f[p] != '%' {
			continue
		}
		q := p + 1
		for q < len(f) && strings.IndexByte("+-# 0123456789.", f[q]) >= 0 {
			q++
		}
		if q >= len(f) {
			break
		}
		if f[q] == '%' {
			p = q
			continue
		}
		if f[q] == 'w' && argi < len(args) {
			if e, ok := args[argi].(iface); ok && e.t != nil {
				wrapped = append(wrapped, e)
			}
		}
		argi++
		p = q
	}
	fmtPkg := i.prog.ImportedPackage("fmt")
	switch len(wrapped) {
	case 0:
		ep := i.prog.ImportedPackage("errors")
		t := ep.Type("errorString").Object().Type()
		cell := value(structure{msg})
		return iface{t: types.NewPointer(t), v: &cell}
	case 1:
		t := fmtPkg.Type("wrapError").Object().Type()
		cell := value(structure{msg, wrapped[0]})
		return iface{t: types.NewPointer(t), v: &cell}
	default:
		t := fmtPkg.Type("wrapErrors").Object().Type()
		cell := value(structure{msg, wrapped})
		return iface{t: types.NewPointer(t), v: &cell}
	}
}

func (i *interpreter) unwrap(fr *frame, e iface) (iface, bool) {
	if e.t == nil {
		return iface{}, false
	}
	m := i.findMethod(e.t, "Unwrap")
	if m == nil || m.Signature.Params().Len() != 0 || m.Signature.Results().Len() != 1 {
		return iface{}, false
	}
	if _, ok := m.Signature.Results().At(0).Type().Underlying().(*types.Interface); !ok {
		return iface{}, false // Unwrap() []error not followed
	}
	r := call(i, fr, 0, m, []value{e.v}).(iface)
	return r, r.t != nil
}

func comparableType(t types.Type) bool { return types.Comparable(t) }

func extErrorsIs(fr *frame, a []value) value {
	i := fr.i
	err, target := a[0].(iface), a[1].(iface)
	if err.t == nil || target.t == nil {
		return err.t == nil && target.t == nil
	}
	for {
		if comparableType(target.t) && sameType(err.t, target.t) {
			if i.truth(i.equalsV(err.t, err.v, target.v)) {
				return true
			}
		}
		if m := i.findMethod(err.t, "Is"); m != nil && m.Signature.Params().Len() == 1 {
			if i.truth(call(i, fr, 0, m, []value{err.v, target})) {
				return true
			}
		}
		var ok bool
		err, ok = i.unwrap(fr, err)
		if !ok {
			return false
		}
	}
}

func extErrorsAs(fr *frame, a []value) value {
	i := fr.i
	err, target := a[0].(iface), a[1].(iface)
	if target.t == nil {
		panic(targetPanic{iface{i.runtimeErrorString, "errors: target cannot be nil"}})
	}
	pt, ok := target.t.Underlying().(*types.Pointer)
	if !ok {
		panic(targetPanic{iface{i.runtimeErrorString, "errors: target must be a non-nil pointer"}})
	}
	want := pt.Elem()
	cell := target.v.(*value)
	for err.t != nil {
		if _, isIface := want.Underlying().(*types.Interface); isIface {
			if types.AssignableTo(err.t, want) {
				*cell = err
				return true
			}
		} else if types.Identical(err.t, want) {
			*cell = err.v
			return true
		}
		if m := i.findMethod(err.t, "As"); m != nil && m.Signature.Params().Len() == 1 {
			if i.truth(call(i, fr, 0, m, []value{err.v, target})) {
				return true
			}
		}
		var ok bool
		err, ok = i.unwrap(fr, err)
		if !ok {
			return false
		}
	}
	return false
}

// deepEqual is reflect.DeepEqual over interpreter values (bool or Bool term).
func (i *interpreter) deepEqual(a, b value) value {
	ai, bi := a.(iface), b.(iface)
	if ai.t == nil || bi.t == nil {
		return ai.t == nil && bi.t == nil
	}
	if !types.Identical(ai.t, bi.t) {
		return false
	}
	return i.deepEq(ai.t, ai.v, bi.v, map[[2]*value]bool{})
}

func (i *interpreter) deepEq(t types.Type, a, b value, seen map[[2]*value]bool) value {
	switch u := t.Underlying().(type) {
	case *types.Basic:
		return i.equalsV(t, a, b)
	case *types.Pointer:
		pa, pb := a.(*value), b.(*value)
		if pa == pb {
			return true
		}
		if pa == nil || pb == nil {
			return false
		}
		if seen[[2]*value{pa, pb}] {
			return true
		}
		seen[[2]*value{pa, pb}] = true
		return i.deepEq(u.Elem(), *pa, *pb, seen)
	case *types.Struct:
		sa, sb := a.(structure), b.(structure)
		var acc value = true
		for k := 0; k < u.NumFields(); k++ {
			acc = i.andV(acc, i.deepEq(u.Field(k).Type(), sa[k], sb[k], seen))
			if acc == false {
				return false
			}
		}
		return acc
	case *types.Array:
		sa, sb := a.(array), b.(array)
		var acc value = true
		for k := range sa {
			acc = i.andV(acc, i.deepEq(u.Elem(), sa[k], sb[k], seen))
			if acc == false {
				return false
			}
		}
		return acc
	case *types.Slice:
		sa, sb := a.([]value), b.([]value)
		if (sa == nil) != (sb == nil) || len(sa) != len(sb) {
			return false
		}
		var acc value = true
		for k := range sa {
			acc = i.andV(acc, i.deepEq(u.Elem(), sa[k], sb[k], seen))
			if acc == false {
				return false
			}
		}
		return acc
	case *types.Map:
		ma, mb := a.(*omap), b.(*omap)
		if (ma == nil) != (mb == nil) || ma.len() != mb.len() {
			return false
		}
		if ma == nil {
			return true
		}
		var acc value = true
		for _, e := range ma.entries {
			if e.deleted {
				continue
			}
			v, ok := i.mapLookup(mb, e.key)
			if !ok {
				return false
			}
			acc = i.andV(acc, i.deepEq(u.Elem(), e.val, v, seen))
			if acc == false {
				return false
			}
		}
		return acc
	case *types.Interface:
		ia, ib := a.(iface), b.(iface)
		if ia.t == nil || ib.t == nil {
			return ia.t == nil && ib.t == nil
		}
		if !types.Identical(ia.t, ib.t) {
			return false
		}
		return i.deepEq(ia.t, ia.v, ib.v, seen)
	case *types.Signature:
		return isNilRef(a) && isNilRef(b)
	case *types.Chan:
		return a.(*channel) == b.(*channel)
	}
	panic(unsupported(fmt.Sprintf("DeepEqual on %s", t)))
}

var _ *ssa.Function

// findMethod returns the exported method name of t's method set, or nil.
func (i *interpreter) findMethod(t types.Type, name string) *ssa.Function {
	sel := i.prog.MethodSets.MethodSet(t).Lookup(nil, name)
	if sel == nil {
		return nil
	}
	return i.prog.MethodValue(sel)
}
