package interp

// encoding/json model.  encoding/json is reflection-driven and cannot be interpreted;
// this is an engine-level re-implementation over interpreter values that follows the
// rules snapd relies on: struct tags (name, omitempty, "-", string), embedded structs,
// json.Marshaler/Unmarshaler and encoding.TextMarshaler/TextUnmarshaler dispatch INTO the
// interpreted methods, json.RawMessage, json.Number/UseNumber, pointers, maps with sorted
// keys, case-insensitive field matching, HTML escaping.  JSON text itself is produced and
// parsed by the host encoding/json.  Symbolic scalars travel through JSON text as
// placeholder string tokens that Unmarshal turns back into the same symbolic value.

import (
	"bytes"
	"encoding/base64"
	"encoding/json"
	"fmt"
	"go/types"
	"sort"
	"strconv"
	"strings"

	"golang.org/x/tools/go/ssa"

	"symgo/smt"
)

const jsonSymPrefix = "\x01symgo:"

func init() {
	for k, v := range map[string]externalFn{
		"encoding/json.Marshal": func(fr *frame, a []value) value {
			b, err := fr.i.jsonMarshal(fr, a[0].(iface))
			if err != nil {
				return tuple{[]value(nil), fr.i.mkError("json: " + err.Error())}
			}
			return tuple{strBytes(string(b)), iface{}}
		},
		"encoding/json.MarshalIndent": func(fr *frame, a []value) value {
			b, err := fr.i.jsonMarshal(fr, a[0].(iface))
			if err != nil {
				return tuple{[]value(nil), fr.i.mkError("json: " + err.Error())}
			}
			var out bytes.Buffer
			if json.Indent(&out, b, fr.i.concStr(a[1], "json prefix"), fr.i.concStr(a[2], "json indent")) == nil {
				b = out.Bytes()
			}
			return tuple{strBytes(string(b)), iface{}}
		},
		"encoding/json.Unmarshal": func(fr *frame, a []value) value {
			data := fr.i.concBytes(a[0], "json.Unmarshal input")
			if err := fr.i.jsonUnmarshal(fr, data, a[1].(iface), false); err != nil {
				return fr.i.mkError(err.Error())
			}
			return iface{}
		},
		"encoding/json.Valid": func(fr *frame, a []value) value {
			return json.Valid(fr.i.concBytes(a[0], "json.Valid input"))
		},
		"encoding/json.NewDecoder": func(fr *frame, a []value) value {
			cell := value(native{&jsonDecoder{r: a[0].(iface)}})
			return &cell
		},
		"(*encoding/json.Decoder).UseNumber": func(fr *frame, a []value) value {
			(*a[0].(*value)).(native).v.(*jsonDecoder).useNumber = true
			return nil
		},
		"(*encoding/json.Decoder).DisallowUnknownFields": extNop,
		"(*encoding/json.Decoder).More": func(fr *frame, a []value) value {
			d := (*a[0].(*value)).(native).v.(*jsonDecoder)
			fr.i.fillDecoder(fr, d)
			return len(bytes.TrimSpace(d.buf)) > 0
		},
		"(*encoding/json.Decoder).Buffered": func(fr *frame, a []value) value {
			panic(unsupported("json.Decoder.Buffered"))
		},
		"(*encoding/json.Decoder).Decode": func(fr *frame, a []value) value {
			d := (*a[0].(*value)).(native).v.(*jsonDecoder)
			fr.i.fillDecoder(fr, d)
			dec := json.NewDecoder(bytes.NewReader(d.buf))
			var raw json.RawMessage
			if err := dec.Decode(&raw); err != nil {
				if len(bytes.TrimSpace(d.buf)) == 0 {
					ioPkg := fr.i.prog.ImportedPackage("io")
					return load(types.Universe.Lookup("error").Type(), fr.i.globalAddr(ioPkg.Var("EOF")))
				}
				return fr.i.mkError(err.Error())
			}
			d.buf = d.buf[dec.InputOffset():]
			if err := fr.i.jsonUnmarshal(fr, raw, a[1].(iface), d.useNumber); err != nil {
				return fr.i.mkError(err.Error())
			}
			return iface{}
		},
		"encoding/json.NewEncoder": func(fr *frame, a []value) value {
			cell := value(native{&jsonEncoder{w: a[0].(iface)}})
			return &cell
		},
		"(*encoding/json.Encoder).SetIndent":     extNop,
		"(*encoding/json.Encoder).SetEscapeHTML": extNop,
		"(*encoding/json.Encoder).Encode": func(fr *frame, a []value) value {
			e := (*a[0].(*value)).(native).v.(*jsonEncoder)
			b, err := fr.i.jsonMarshal(fr, a[1].(iface))
			if err != nil {
				return fr.i.mkError("json: " + err.Error())
			}
			r := fr.i.writeTo(fr, e.w, string(b)+"\n").(tuple)
			return r[1]
		},
	} {
		externals[k] = v
	}
}

type jsonDecoder struct {
	r         iface
	buf       []byte
	eof       bool
	useNumber bool
}

type jsonEncoder struct{ w iface }

// fillDecoder reads the whole underlying reader (single-threaded model: no streaming).
func (i *interpreter) fillDecoder(fr *frame, d *jsonDecoder) {
	if d.eof {
		return
	}
	rd := i.findMethod(d.r.t, "Read")
	if rd == nil {
		panic(unsupported("json.NewDecoder on a value without Read"))
	}
	for n := 0; n < 10000; n++ {
		buf := make([]value, 4096)
		for k := range buf {
			buf[k] = uint8(0)
		}
		res := call(i, fr, 0, rd, []value{d.r.v, buf}).(tuple)
		cnt := int(i.asIndex(res[0], types.Typ[types.Int]))
		d.buf = append(d.buf, i.concBytes(buf[:cnt], "json stream")...)
		if res[1].(iface).t != nil {
			d.eof = true
			return
		}
		if cnt == 0 {
			d.eof = true
			return
		}
	}
}

func (i *interpreter) concBytes(v value, what string) []byte {
	switch x := v.(type) {
	case string:
		return []byte(x)
	case []value:
		out := make([]byte, len(x))
		for k, e := range x {
			c, ok := e.(uint8)
			if !ok {
				panic(unsupported(what + " with symbolic bytes"))
			}
			out[k] = c
		}
		return out
	}
	panic(unsupported(what + ": not bytes"))
}

// mkError builds an errors.errorString value.
func (i *interpreter) mkError(msg string) value {
	ep := i.prog.ImportedPackage("errors")
	t := ep.Type("errorString").Object().Type()
	cell := value(structure{msg})
	return iface{t: types.NewPointer(t), v: &cell}
}

// ---------- marshal ----------

func (i *interpreter) jsonMarshal(fr *frame, v iface) ([]byte, error) {
	var sb bytes.Buffer
	if err := i.jsonEnc(fr, &sb, v.v, v.t, false, 0); err != nil {
		return nil, err
	}
	// normalise through the host (validates, compacts like encoding/json output)
	var out bytes.Buffer
	if err := json.Compact(&out, sb.Bytes()); err != nil {
		return nil, fmt.Errorf("model produced invalid JSON (%v): %s", err, sb.String())
	}
	return out.Bytes(), nil
}

// jsonCompactEscape mirrors encoding/json's compact(..., escapeHTML=true) applied to the output of
// Marshalers and RawMessage values: <, >, & and U+2028/U+2029 can only occur inside strings.
func jsonCompactEscape(b []byte) []byte {
	var out bytes.Buffer
	if err := json.Compact(&out, b); err != nil {
		return b
	}
	r := strings.NewReplacer("<", `\u003c`, ">", `\u003e`, "&", `\u0026`, "\u2028", `\u2028`, "\u2029", `\u2029`)
	return []byte(r.Replace(out.String()))
}

func jsonQuote(s string) string {
	b, _ := json.Marshal(s)
	return string(b)
}

// placeholder registers a symbolic value and returns the JSON string token standing for it.
func (i *interpreter) jsonPlaceholder(v value, t types.Type) string {
	if i.jsonSyms == nil {
		i.jsonSyms = map[string]jsonSym{}
	}
	var key string
	switch x := v.(type) {
	case *smt.Term:
		key = fmt.Sprintf("t%d", x.ID)
	default:
		key = fmt.Sprintf("v%d", len(i.jsonSyms))
	}
	i.jsonSyms[key] = jsonSym{v: v, t: t}
	return jsonQuote(jsonSymPrefix + key)
}

type jsonSym struct {
	v value
	t types.Type
}

func (i *interpreter) methodOf(t types.Type, name string) *ssa.Function {
	if t == nil {
		return nil
	}
	sel := i.prog.MethodSets.MethodSet(t).Lookup(nil, name)
	if sel == nil {
		return nil
	}
	return i.prog.MethodValue(sel)
}

func isEmptyJSON(v value) bool {
	switch x := v.(type) {
	case bool:
		return !x
	case int:
		return x == 0
	case int8:
		return x == 0
	case int16:
		return x == 0
	case int32:
		return x == 0
	case int64:
		return x == 0
	case uint:
		return x == 0
	case uint8:
		return x == 0
	case uint16:
		return x == 0
	case uint32:
		return x == 0
	case uint64:
		return x == 0
	case uintptr:
		return x == 0
	case float32:
		return x == 0
	case float64:
		return x == 0
	case string:
		return x == ""
	case *value:
		return x == nil
	case iface:
		return x.t == nil
	case []value:
		return len(x) == 0
	case array:
		return len(x) == 0
	case *omap:
		return x.len() == 0
	}
	return false
}

type jsonField struct {
	name      string
	index     []int
	typ       types.Type
	omitEmpty bool
	quoted    bool
}

// jsonFields lists the JSON-visible fields of a struct type (embedded structs flattened).
func jsonFields(st *types.Struct, prefix []int, depth int, out *[]jsonField) {
	for k := 0; k < st.NumFields(); k++ {
		f := st.Field(k)
		tag := reflectTag(st.Tag(k), "json")
		if tag == "-" {
			continue
		}
		name, opts, _ := strings.Cut(tag, ",")
		idx := append(append([]int(nil), prefix...), k)
		if f.Anonymous() && name == "" {
			ft := f.Type()
			if p, ok := ft.Underlying().(*types.Pointer); ok {
				ft = p.Elem()
			}
			if es, ok := ft.Underlying().(*types.Struct); ok && depth < 4 {
				jsonFields(es, idx, depth+1, out)
				continue
			}
		}
		if !f.Exported() {
			continue
		}
		if name == "" {
			name = f.Name()
		}
		jf := jsonField{name: name, index: idx, typ: f.Type()}
		for _, o := range strings.Split(opts, ",") {
			switch o {
			case "omitempty":
				jf.omitEmpty = true
			case "string":
				jf.quoted = true
			}
		}
		*out = append(*out, jf)
	}
}

func reflectTag(tag, key string) string {
	// minimal reflect.StructTag.Get
	for tag != "" {
		i := 0
		for i < len(tag) && tag[i] == ' ' {
			i++
		}
		tag = tag[i:]
		if tag == "" {
			break
		}
		i = 0
		for i < len(tag) && tag[i] > ' ' && tag[i] != ':' && tag[i] != '"' && tag[i] != 0x7f {
			i++
		}
		if i == 0 || i+1 >= len(tag) || tag[i] != ':' || tag[i+1] != '"' {
			break
		}
		name := tag[:i]
		tag = tag[i+1:]
		i = 1
		for i < len(tag) && tag[i] != '"' {
			if tag[i] == '\\' {
				i++
			}
			i++
		}
		if i >= len(tag) {
			break
		}
		qvalue := tag[:i+1]
		tag = tag[i+1:]
		if key == name {
			v, err := strconv.Unquote(qvalue)
			if err != nil {
				break
			}
			return v
		}
	}
	return ""
}

func isRawMessage(t types.Type) bool {
	n, ok := t.(*types.Named)
	return ok && n.Obj().Pkg() != nil && n.Obj().Pkg().Path() == "encoding/json" && n.Obj().Name() == "RawMessage"
}

func hasSymBytes(b []value) bool {
	for _, e := range b {
		if _, ok := e.(uint8); !ok {
			return true
		}
	}
	return false
}

func isTimeType(t types.Type) bool {
	n, ok := t.(*types.Named)
	return ok && n.Obj().Pkg() != nil && n.Obj().Pkg().Path() == "time" && n.Obj().Name() == "Time"
}

func isJSONNumber(t types.Type) bool {
	n, ok := t.(*types.Named)
	return ok && n.Obj().Pkg() != nil && n.Obj().Pkg().Path() == "encoding/json" && n.Obj().Name() == "Number"
}

func (i *interpreter) jsonEnc(fr *frame, sb *bytes.Buffer, v value, t types.Type, quoted bool, depth int) error {
	if depth > 64 {
		return fmt.Errorf("json: value too deep (cycle?)")
	}
	if t == nil {
		sb.WriteString("null")
		return nil
	}
	// nil pointers / interfaces
	if p, ok := v.(*value); ok && p == nil {
		if _, isPtr := t.Underlying().(*types.Pointer); isPtr {
			sb.WriteString("null")
			return nil
		}
	}
	if _, isIface := t.Underlying().(*types.Interface); isIface {
		iv := v.(iface)
		if iv.t == nil {
			sb.WriteString("null")
			return nil
		}
		return i.jsonEnc(fr, sb, iv.v, iv.t, false, depth+1)
	}
	// Marshaler / TextMarshaler on the value type, or on the pointer type for addressable values
	if isRawMessage(t) {
		b := i.concBytes(v, "json.RawMessage")
		if v.([]value) == nil {
			sb.WriteString("null")
			return nil
		}
		sb.Write(jsonCompactEscape(b))
		return nil
	}
	if pt, isPtr := t.Underlying().(*types.Pointer); isPtr && isTimeType(pt.Elem()) {
		if pv := v.(*value); pv != nil {
			return i.jsonEnc(fr, sb, load(pt.Elem(), pv), pt.Elem(), quoted, depth+1)
		}
	}
	if isTimeType(t) && hasSymbolic(v, 0) {
		// a symbolic instant cannot be formatted; it crosses JSON as a placeholder carrying the
		// instant with its monotonic reading stripped (what the RFC3339 text form preserves)
		tt := i.prog.ImportedPackage("time").Type("Time").Object()
		round := i.prog.LookupMethod(tt.Type(), tt.Pkg(), "Round")
		stripped := call(i, fr, 0, round, []value{v, int64(0)})
		sb.WriteString(i.jsonPlaceholder(stripped, t))
		return nil
	}
	if m := i.methodOf(t, "MarshalJSON"); m != nil && m.Signature.Params().Len() == 0 && m.Signature.Results().Len() == 2 {
		res := call(i, fr, 0, m, []value{v}).(tuple)
		if e := res[1].(iface); e.t != nil {
			s, _ := i.methodString(fr, e, "Error")
			return fmt.Errorf("error calling MarshalJSON for type %s: %v", t, s)
		}
		if rb, ok := res[0].([]value); ok && hasSymBytes(rb) {
			// the custom codec's text depends on symbolic data: the value crosses JSON as a
			// placeholder and is handed back unchanged to a target of the same type
			// (assumption: the type's own Marshal/Unmarshal pair round-trips)
			sb.WriteString(i.jsonPlaceholder(v, t))
			return nil
		}
		b := i.concBytes(res[0], "MarshalJSON result")
		if !json.Valid(b) {
			return fmt.Errorf("error calling MarshalJSON for type %s: invalid JSON %q", t, b)
		}
		sb.Write(jsonCompactEscape(b))
		return nil
	}
	if m := i.methodOf(t, "MarshalText"); m != nil && m.Signature.Params().Len() == 0 && m.Signature.Results().Len() == 2 {
		res := call(i, fr, 0, m, []value{v}).(tuple)
		if e := res[1].(iface); e.t != nil {
			s, _ := i.methodString(fr, e, "Error")
			return fmt.Errorf("error calling MarshalText for type %s: %v", t, s)
		}
		sb.WriteString(jsonQuote(string(i.concBytes(res[0], "MarshalText result"))))
		return nil
	}
	switch u := t.Underlying().(type) {
	case *types.Pointer:
		p := v.(*value)
		// pointer-receiver marshalers
		return i.jsonEnc(fr, sb, load(u.Elem(), p), u.Elem(), quoted, depth+1)
	case *types.Basic:
		switch x := v.(type) {
		case *smt.Term, sstr:
			sb.WriteString(i.jsonPlaceholder(x, t))
			return nil
		case bool:
			s := strconv.FormatBool(x)
			if quoted {
				s = jsonQuote(s)
			}
			sb.WriteString(s)
		case string:
			if isJSONNumber(t) {
				if x == "" {
					x = "0"
				}
				sb.WriteString(x)
				return nil
			}
			s := jsonQuote(x)
			if quoted {
				s = jsonQuote(s)
			}
			sb.WriteString(s)
		case float32, float64:
			b, err := json.Marshal(x)
			if err != nil {
				return err
			}
			sb.Write(b)
		default:
			s := fmt.Sprint(x)
			if quoted {
				s = jsonQuote(s)
			}
			sb.WriteString(s)
		}
		return nil
	case *types.Struct:
		var fields []jsonField
		jsonFields(u, nil, 0, &fields)
		sb.WriteByte('{')
		first := true
	NextField:
		for _, f := range fields {
			fv := v
			ft := t
			for _, ix := range f.index {
				if p, ok := fv.(*value); ok {
					if p == nil {
						continue NextField
					}
					fv = *p
					ft = deref(ft)
				}
				fv = fv.(structure)[ix]
				ft = ft.Underlying().(*types.Struct).Field(ix).Type()
			}
			if f.omitEmpty && isEmptyJSON(fv) {
				continue
			}
			if !first {
				sb.WriteByte(',')
			}
			first = false
			sb.WriteString(jsonQuote(f.name))
			sb.WriteByte(':')
			if err := i.jsonEnc(fr, sb, fv, ft, f.quoted, depth+1); err != nil {
				return err
			}
		}
		sb.WriteByte('}')
		return nil
	case *types.Map:
		m := v.(*omap)
		if m == nil {
			sb.WriteString("null")
			return nil
		}
		type kv struct {
			k string
			v value
		}
		var kvs []kv
		for _, e := range m.entries {
			if e.deleted {
				continue
			}
			var ks string
			switch k := e.key.(type) {
			case string:
				ks = k
			case *smt.Term, sstr:
				return fmt.Errorf("symbolic map key in JSON encoding")
			default:
				if tm := i.methodOf(u.Key(), "MarshalText"); tm != nil {
					res := call(i, fr, 0, tm, []value{e.key}).(tuple)
					ks = string(i.concBytes(res[0], "map key text"))
				} else {
					ks = fmt.Sprint(k)
				}
			}
			kvs = append(kvs, kv{ks, e.val})
		}
		sort.Slice(kvs, func(a, b int) bool { return kvs[a].k < kvs[b].k })
		sb.WriteByte('{')
		for n, e := range kvs {
			if n > 0 {
				sb.WriteByte(',')
			}
			sb.WriteString(jsonQuote(e.k))
			sb.WriteByte(':')
			if err := i.jsonEnc(fr, sb, e.v, u.Elem(), false, depth+1); err != nil {
				return err
			}
		}
		sb.WriteByte('}')
		return nil
	case *types.Slice:
		s := v.([]value)
		if s == nil {
			sb.WriteString("null")
			return nil
		}
		if b, ok := u.Elem().Underlying().(*types.Basic); ok && b.Kind() == types.Uint8 && i.methodOf(u.Elem(), "MarshalJSON") == nil {
			sb.WriteString(jsonQuote(base64.StdEncoding.EncodeToString(i.concBytes(s, "[]byte in JSON"))))
			return nil
		}
		sb.WriteByte('[')
		for n, e := range s {
			if n > 0 {
				sb.WriteByte(',')
			}
			if err := i.jsonEnc(fr, sb, e, u.Elem(), false, depth+1); err != nil {
				return err
			}
		}
		sb.WriteByte(']')
		return nil
	case *types.Array:
		s := v.(array)
		sb.WriteByte('[')
		for n, e := range s {
			if n > 0 {
				sb.WriteByte(',')
			}
			if err := i.jsonEnc(fr, sb, e, u.Elem(), false, depth+1); err != nil {
				return err
			}
		}
		sb.WriteByte(']')
		return nil
	}
	return fmt.Errorf("json: unsupported type: %s", t)
}

// ---------- unmarshal ----------

func (i *interpreter) jsonUnmarshal(fr *frame, data []byte, target iface, useNumber bool) error {
	if !json.Valid(data) {
		var x interface{}
		err := json.Unmarshal(data, &x)
		if err == nil {
			err = fmt.Errorf("invalid JSON")
		}
		return err
	}
	pt, ok := target.t.Underlying().(*types.Pointer)
	if !ok {
		return fmt.Errorf("json: Unmarshal(non-pointer %s)", target.t)
	}
	p := target.v.(*value)
	if p == nil {
		return fmt.Errorf("json: Unmarshal(nil %s)", target.t)
	}
	return i.jsonDec(fr, bytes.TrimSpace(data), p, pt.Elem(), useNumber, false)
}

func (i *interpreter) jsonDec(fr *frame, raw []byte, p *value, t types.Type, useNumber, quoted bool) error {
	isNull := string(raw) == "null"
	if _, isIface := t.Underlying().(*types.Interface); isIface {
		// an interface holding a non-nil pointer is decoded through that pointer (encoding/json's indirect)
		if cur, ok := (*p).(iface); ok && cur.t != nil && !isNull {
			if pt, isPtr := cur.t.Underlying().(*types.Pointer); isPtr {
				if pv, ok := cur.v.(*value); ok && pv != nil {
					return i.jsonDec(fr, raw, pv, pt.Elem(), useNumber, quoted)
				}
			}
		}
	}
	// Unmarshaler on *T
	ptrT := types.NewPointer(t)
	if len(raw) > 0 && raw[0] == '"' && bytes.Contains(raw, []byte("symgo:")) {
		var s string
		json.Unmarshal(raw, &s)
		if sym, ok := i.jsonSyms[strings.TrimPrefix(s, jsonSymPrefix)]; ok && strings.HasPrefix(s, jsonSymPrefix) {
			if pt, isPtr := t.Underlying().(*types.Pointer); isPtr && !types.Identical(sym.t, t) {
				// a placeholder decoded into *T: allocate (or reuse) the cell and decode into T
				cur := (*p).(*value)
				if cur == nil {
					cell := zero(pt.Elem())
					cur = &cell
					*p = cur
				}
				return i.jsonDec(fr, raw, cur, pt.Elem(), useNumber, quoted)
			}
			if types.Identical(sym.t, t) {
				cell := sym.v
				*p = load(t, &cell)
				return nil
			}
			if pt, isPtr := sym.t.Underlying().(*types.Pointer); isPtr && types.Identical(pt.Elem(), t) {
				if pp := sym.v.(*value); pp != nil {
					*p = load(t, pp)
					return nil
				}
			}
		}
	}
	if isRawMessage(t) {
		*p = strBytes(string(raw))
		return nil
	}
	if _, isIface := t.Underlying().(*types.Interface); !isIface {
		if m := i.methodOf(ptrT, "UnmarshalJSON"); m != nil && m.Signature.Params().Len() == 1 {
			if _, isPtr := t.Underlying().(*types.Pointer); !isPtr {
				r := call(i, fr, 0, m, []value{p, strBytes(string(raw))}).(iface)
				if r.t != nil {
					s, _ := i.methodString(fr, r, "Error")
					return fmt.Errorf("%v", s)
				}
				return nil
			}
		}
		if m := i.methodOf(ptrT, "UnmarshalText"); m != nil && m.Signature.Params().Len() == 1 && len(raw) > 0 && raw[0] == '"' {
			if _, isPtr := t.Underlying().(*types.Pointer); !isPtr {
				var s string
				json.Unmarshal(raw, &s)
				r := call(i, fr, 0, m, []value{p, strBytes(s)}).(iface)
				if r.t != nil {
					es, _ := i.methodString(fr, r, "Error")
					return fmt.Errorf("%v", es)
				}
				return nil
			}
		}
	}
	// placeholders for symbolic scalars
	if len(raw) > 0 && raw[0] == '"' && bytes.Contains(raw, []byte("symgo:")) {
		var s string
		json.Unmarshal(raw, &s)
		if strings.HasPrefix(s, jsonSymPrefix) {
			sym, ok := i.jsonSyms[strings.TrimPrefix(s, jsonSymPrefix)]
			if !ok {
				return fmt.Errorf("json model: unknown symbolic placeholder")
			}
			switch tu := t.Underlying().(type) {
			case *types.Basic:
				if st, isT := sym.v.(*smt.Term); isT && st.W > 0 {
					w, _, okw := intInfo(t)
					_, ssigned, _ := intInfo(sym.t)
					if !okw {
						return fmt.Errorf("json model: symbolic integer into %s", t)
					}
					*p = norm(t, i.ctx.Resize(st, w, ssigned))
					return nil
				}
				*p = sym.v
				return nil
			case *types.Interface:
				_ = tu
				*p = iface{t: sym.t, v: sym.v}
				return nil
			}
			return fmt.Errorf("json model: symbolic placeholder into %s", t)
		}
	}
	switch u := t.Underlying().(type) {
	case *types.Pointer:
		if isNull {
			*p = (*value)(nil)
			return nil
		}
		cur := (*p).(*value)
		if cur == nil {
			cell := zero(u.Elem())
			cur = &cell
			*p = cur
		}
		return i.jsonDec(fr, raw, cur, u.Elem(), useNumber, quoted)
	case *types.Interface:
		if isNull {
			*p = iface{}
			return nil
		}
		if u.NumMethods() != 0 {
			return fmt.Errorf("json: cannot unmarshal into Go value of type %s", t)
		}
		g, err := i.jsonGeneric(raw, useNumber)
		if err != nil {
			return err
		}
		*p = g
		return nil
	}
	if isNull {
		return nil // null leaves non-pointer values unchanged
	}
	switch u := t.Underlying().(type) {
	case *types.Basic:
		if quoted && len(raw) > 0 && raw[0] == '"' {
			var s string
			json.Unmarshal(raw, &s)
			raw = []byte(s)
		}
		info := u.Info()
		switch {
		case info&types.IsString != 0:
			if isJSONNumber(t) {
				if raw[0] == '"' {
					return fmt.Errorf("json: invalid number literal, trying to unmarshal %s into Number", raw)
				}
				*p = string(raw)
				return nil
			}
			if raw[0] != '"' {
				return fmt.Errorf("json: cannot unmarshal %s into Go value of type %s", jsonKind(raw), t)
			}
			var s string
			if err := json.Unmarshal(raw, &s); err != nil {
				return err
			}
			*p = s
		case info&types.IsBoolean != 0:
			if string(raw) != "true" && string(raw) != "false" {
				return fmt.Errorf("json: cannot unmarshal %s into Go value of type %s", jsonKind(raw), t)
			}
			*p = string(raw) == "true"
		case info&types.IsInteger != 0:
			if raw[0] == '"' || raw[0] == '{' || raw[0] == '[' || raw[0] == 't' || raw[0] == 'f' {
				return fmt.Errorf("json: cannot unmarshal %s into Go value of type %s", jsonKind(raw), t)
			}
			w, signed, _ := intInfo(t)
			if signed {
				n, err := strconv.ParseInt(string(raw), 10, w)
				if err != nil {
					return fmt.Errorf("json: cannot unmarshal number %s into Go value of type %s", raw, t)
				}
				*p = fromConst(t, i.ctx.BV(uint64(n), w))
			} else {
				n, err := strconv.ParseUint(string(raw), 10, w)
				if err != nil {
					return fmt.Errorf("json: cannot unmarshal number %s into Go value of type %s", raw, t)
				}
				*p = fromConst(t, i.ctx.BV(n, w))
			}
		case info&types.IsFloat != 0:
			f, err := strconv.ParseFloat(string(raw), 64)
			if err != nil {
				return fmt.Errorf("json: cannot unmarshal %s into Go value of type %s", jsonKind(raw), t)
			}
			if u.Kind() == types.Float32 {
				*p = float32(f)
			} else {
				*p = f
			}
		default:
			return fmt.Errorf("json: unsupported basic type %s", t)
		}
		return nil
	case *types.Struct:
		if raw[0] != '{' {
			return fmt.Errorf("json: cannot unmarshal %s into Go value of type %s", jsonKind(raw), t)
		}
		var obj map[string]json.RawMessage
		if err := json.Unmarshal(raw, &obj); err != nil {
			return err
		}
		var fields []jsonField
		jsonFields(u, nil, 0, &fields)
		keys := make([]string, 0, len(obj))
		for k := range obj {
			keys = append(keys, k)
		}
		sort.Strings(keys)
		for _, k := range keys {
			var f *jsonField
			for n := range fields {
				if fields[n].name == k {
					f = &fields[n]
					break
				}
			}
			if f == nil {
				for n := range fields {
					if strings.EqualFold(fields[n].name, k) {
						f = &fields[n]
						break
					}
				}
			}
			if f == nil {
				continue
			}
			// walk to the field cell, allocating embedded pointers
			cell := p
			ct := t
			for _, ix := range f.index {
				if pp, ok := (*cell).(*value); ok {
					if pp == nil {
						nc := zero(deref(ct))
						pp = &nc
						*cell = pp
					}
					cell = pp
					ct = deref(ct)
				}
				st := (*cell).(structure)
				cell = &st[ix]
				ct = ct.Underlying().(*types.Struct).Field(ix).Type()
			}
			if err := i.jsonDec(fr, bytes.TrimSpace(obj[k]), cell, ct, useNumber, f.quoted); err != nil {
				return err
			}
		}
		return nil
	case *types.Map:
		if raw[0] != '{' {
			return fmt.Errorf("json: cannot unmarshal %s into Go value of type %s", jsonKind(raw), t)
		}
		dec := json.NewDecoder(bytes.NewReader(raw))
		// keep key order of the document
		if _, err := dec.Token(); err != nil {
			return err
		}
		m := (*p).(*omap)
		if m == nil {
			m = makeMap(u.Key(), 0)
			*p = m
		}
		for dec.More() {
			tok, err := dec.Token()
			if err != nil {
				return err
			}
			ks := tok.(string)
			var rawv json.RawMessage
			if err := dec.Decode(&rawv); err != nil {
				return err
			}
			var key value
			if kb, ok := u.Key().Underlying().(*types.Basic); ok && kb.Info()&types.IsString != 0 {
				key = ks
			} else if ok && kb.Info()&types.IsInteger != 0 {
				w, signed, _ := intInfo(u.Key())
				if signed {
					n, err := strconv.ParseInt(ks, 10, w)
					if err != nil {
						return fmt.Errorf("json: cannot unmarshal number %s into Go value of type %s", ks, u.Key())
					}
					key = fromConst(u.Key(), i.ctx.BV(uint64(n), w))
				} else {
					n, err := strconv.ParseUint(ks, 10, w)
					if err != nil {
						return fmt.Errorf("json: cannot unmarshal number %s into Go value of type %s", ks, u.Key())
					}
					key = fromConst(u.Key(), i.ctx.BV(n, w))
				}
			} else {
				return fmt.Errorf("json model: unsupported map key type %s", u.Key())
			}
			cell := zero(u.Elem())
			if err := i.jsonDec(fr, bytes.TrimSpace(rawv), &cell, u.Elem(), useNumber, false); err != nil {
				return err
			}
			i.mapInsert(m, key, cell)
		}
		return nil
	case *types.Slice:
		if b, ok := u.Elem().Underlying().(*types.Basic); ok && b.Kind() == types.Uint8 && raw[0] == '"' {
			var bs []byte
			if err := json.Unmarshal(raw, &bs); err != nil {
				return err
			}
			*p = strBytes(string(bs))
			return nil
		}
		if raw[0] != '[' {
			return fmt.Errorf("json: cannot unmarshal %s into Go value of type %s", jsonKind(raw), t)
		}
		var elems []json.RawMessage
		if err := json.Unmarshal(raw, &elems); err != nil {
			return err
		}
		out := make([]value, len(elems))
		for k := range elems {
			out[k] = zero(u.Elem())
			if err := i.jsonDec(fr, bytes.TrimSpace(elems[k]), &out[k], u.Elem(), useNumber, false); err != nil {
				return err
			}
		}
		*p = out
		return nil
	case *types.Array:
		if raw[0] != '[' {
			return fmt.Errorf("json: cannot unmarshal %s into Go value of type %s", jsonKind(raw), t)
		}
		var elems []json.RawMessage
		if err := json.Unmarshal(raw, &elems); err != nil {
			return err
		}
		arr := (*p).(array)
		for k := range arr {
			if k < len(elems) {
				if err := i.jsonDec(fr, bytes.TrimSpace(elems[k]), &arr[k], u.Elem(), useNumber, false); err != nil {
					return err
				}
			} else {
				arr[k] = zero(u.Elem())
			}
		}
		return nil
	}
	return fmt.Errorf("json model: unsupported target type %s", t)
}

func jsonKind(raw []byte) string {
	switch raw[0] {
	case '"':
		return "string"
	case '{':
		return "object"
	case '[':
		return "array"
	case 't', 'f':
		return "bool"
	}
	return "number"
}

// jsonGeneric decodes into interface{}: map[string]interface{}, []interface{}, float64 / json.Number, string, bool, nil.
func (i *interpreter) jsonGeneric(raw []byte, useNumber bool) (value, error) {
	raw = bytes.TrimSpace(raw)
	anyT := types.NewInterfaceType(nil, nil)
	switch raw[0] {
	case '{':
		dec := json.NewDecoder(bytes.NewReader(raw))
		dec.Token()
		mt := types.NewMap(types.Typ[types.String], anyT)
		m := makeMap(types.Typ[types.String], 0)
		for dec.More() {
			tok, err := dec.Token()
			if err != nil {
				return nil, err
			}
			var rawv json.RawMessage
			if err := dec.Decode(&rawv); err != nil {
				return nil, err
			}
			ev, err := i.jsonGeneric(rawv, useNumber)
			if err != nil {
				return nil, err
			}
			i.mapInsert(m, tok.(string), ev)
		}
		return iface{t: mt, v: m}, nil
	case '[':
		var elems []json.RawMessage
		if err := json.Unmarshal(raw, &elems); err != nil {
			return nil, err
		}
		out := make([]value, len(elems))
		for k := range elems {
			ev, err := i.jsonGeneric(elems[k], useNumber)
			if err != nil {
				return nil, err
			}
			out[k] = ev
		}
		return iface{t: types.NewSlice(anyT), v: out}, nil
	case '"':
		var s string
		if err := json.Unmarshal(raw, &s); err != nil {
			return nil, err
		}
		if strings.HasPrefix(s, jsonSymPrefix) {
			if sym, ok := i.jsonSyms[strings.TrimPrefix(s, jsonSymPrefix)]; ok {
				return iface{t: sym.t, v: sym.v}, nil
			}
		}
		return iface{t: types.Typ[types.String], v: s}, nil
	case 't', 'f':
		return iface{t: types.Typ[types.Bool], v: string(raw) == "true"}, nil
	case 'n':
		return iface{}, nil
	}
	if useNumber {
		jp := i.prog.ImportedPackage("encoding/json")
		return iface{t: jp.Type("Number").Object().Type(), v: string(raw)}, nil
	}
	f, err := strconv.ParseFloat(string(raw), 64)
	if err != nil {
		return nil, err
	}
	return iface{t: types.Typ[types.Float64], v: f}, nil
}
