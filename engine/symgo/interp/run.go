package interp

import (
	"fmt"
	"go/token"
	"go/types"
	"os"
	"runtime/debug"
	"sort"
	"strings"
	"sync"
	"time"

	"golang.org/x/tools/go/packages"
	"golang.org/x/tools/go/ssa"
	"golang.org/x/tools/go/ssa/ssautil"

	"symgo/smt"
)

const (
	tokenADD = token.ADD
	tokenSUB = token.SUB
	tokenMUL = token.MUL
	tokenAND = token.AND
	tokenNEQ = token.NEQ
)

// Program is a loaded SSA program.
type Program struct {
	Prog   *ssa.Program
	Pkgs   []*ssa.Package
	Sizes  types.Sizes
	byPath map[string]*ssa.Package
}

// LoadConfig describes what to load.
type LoadConfig struct {
	Dir      string
	Patterns []string
	Overlay  map[string][]byte
	Env      []string
	Tags     string
}

// Load type-checks the packages (with the overlay) and builds SSA for the whole program.
func Load(lc LoadConfig) (*Program, error) {
	cfg := &packages.Config{
		Mode:    packages.LoadAllSyntax,
		Dir:     lc.Dir,
		Overlay: lc.Overlay,
		Env:     append(os.Environ(), lc.Env...),
	}
	if lc.Tags != "" {
		cfg.BuildFlags = []string{"-tags=" + lc.Tags}
	}
	initial, err := packages.Load(cfg, lc.Patterns...)
	if err != nil {
		return nil, err
	}
	var errs []string
	packages.Visit(initial, nil, func(p *packages.Package) {
		for _, e := range p.Errors {
			errs = append(errs, e.Error())
		}
	})
	if len(errs) > 0 {
		if len(errs) > 20 {
			errs = errs[:20]
		}
		return nil, fmt.Errorf("package errors:\n%s", strings.Join(errs, "\n"))
	}
	prog, pkgs := ssautil.AllPackages(initial, ssa.InstantiateGenerics|ssa.SanityCheckFunctions&0)
	prog.Build()
	p := &Program{Prog: prog, Pkgs: pkgs, Sizes: &types.StdSizes{WordSize: 8, MaxAlign: 8}, byPath: map[string]*ssa.Package{}}
	for _, sp := range prog.AllPackages() {
		p.byPath[sp.Pkg.Path()] = sp
	}
	return p, nil
}

func (p *Program) Package(path string) *ssa.Package { return p.byPath[path] }

// ExploreConfig describes one exploration.
type ExploreConfig struct {
	HarnessPkg     string
	HarnessFn      string
	OnceInit       []string // packages initialised once per worker (immutable tables)
	PathInit       []string // packages re-initialised on every path
	Workers        int
	MaxPaths       int
	Deadline       time.Duration
	Opts           Options
	Solver         smt.Options
	Env            map[string]string
	Replay         map[string]uint64
	Seed           int64
	MapOrder       string // "", "reverse"
	SaveQueriesDir string
	Verbose        bool
	Params         map[string]int
	ZeroStubs      []string
}

// Result aggregates an exploration.
type Result struct {
	Paths           int
	ByStatus        map[string]int
	Violations      []Violation
	Problems        []string // messages of non-ok, non-pruned, non-violation paths
	Reached         map[string]int
	AssertHit       map[string]int
	Asserts         int
	SymPaths        int // complete paths with >= 1 genuine symbolic decision
	Samples         []string
	Funcs           map[string]int
	Intrinsics      map[string]int
	Solver          smt.Stats
	OpaqueFmt       int
	Steps           int64
	Exhausted       bool // work-list ran empty
	WallSec         float64
	MaxDecisions    int
	UnknownBranches int
}

type worklist struct {
	mu      sync.Mutex
	cond    *sync.Cond
	items   []WorkItem
	active  int
	stopped bool
}

func (w *worklist) get() (WorkItem, bool) {
	w.mu.Lock()
	defer w.mu.Unlock()
	for {
		if w.stopped {
			return WorkItem{}, false
		}
		if n := len(w.items); n > 0 {
			it := w.items[n-1]
			w.items = w.items[:n-1]
			w.active++
			return it, true
		}
		if w.active == 0 {
			w.cond.Broadcast()
			return WorkItem{}, false
		}
		w.cond.Wait()
	}
}

func (w *worklist) done(children []WorkItem) {
	w.mu.Lock()
	w.items = append(w.items, children...)
	w.active--
	w.mu.Unlock()
	w.cond.Broadcast()
}

func (w *worklist) stop() {
	w.mu.Lock()
	w.stopped = true
	w.mu.Unlock()
	w.cond.Broadcast()
}

// Explore runs the harness over all feasible paths.
func (p *Program) Explore(ec ExploreConfig) (*Result, error) {
	hp := p.byPath[ec.HarnessPkg]
	if hp == nil {
		return nil, fmt.Errorf("harness package %s not loaded", ec.HarnessPkg)
	}
	hf := hp.Func(ec.HarnessFn)
	if hf == nil {
		return nil, fmt.Errorf("harness function %s.%s not found", ec.HarnessPkg, ec.HarnessFn)
	}
	if ec.Workers <= 0 {
		ec.Workers = 1
	}
	if ec.Opts.MaxDecisions == 0 {
		ec.Opts.MaxDecisions = 4000
	}
	if ec.Opts.MaxConcretize == 0 {
		ec.Opts.MaxConcretize = 64
	}
	if ec.Opts.MaxSteps == 0 {
		ec.Opts.MaxSteps = 200_000_000
	}
	if ec.Opts.MaxDepth == 0 {
		ec.Opts.MaxDepth = 400
	}
	ec.Opts.Replay = ec.Replay
	t0 := time.Now()
	res := &Result{ByStatus: map[string]int{}, Reached: map[string]int{}, AssertHit: map[string]int{}, Funcs: map[string]int{}, Intrinsics: map[string]int{}}
	res.Solver.BySolver = map[string]int{}
	wl := &worklist{}
	wl.cond = sync.NewCond(&wl.mu)
	wl.items = []WorkItem{{}}
	var rmu sync.Mutex
	var wg sync.WaitGroup
	var firstErr error
	deadline := time.Time{}
	if ec.Deadline > 0 {
		deadline = t0.Add(ec.Deadline)
	}
	truncated := false
	for w := 0; w < ec.Workers; w++ {
		wg.Add(1)
		go func(w int) {
			defer wg.Done()
			i, err := p.newInterpreter(ec, w)
			if err != nil {
				rmu.Lock()
				if firstErr == nil {
					firstErr = err
				}
				rmu.Unlock()
				wl.stop()
				return
			}
			defer i.solver.Close()
			for {
				item, ok := wl.get()
				if !ok {
					break
				}
				pr := i.runPath(hf, item, ec)
				wl.done(pr.Children)
				rmu.Lock()
				res.Paths++
				res.ByStatus[pr.Status.String()]++
				res.Steps += pr.Steps
				res.Asserts += pr.Asserts
				if len(pr.Decisions) > res.MaxDecisions {
					res.MaxDecisions = len(pr.Decisions)
				}
				for k, v := range pr.Reached {
					res.Reached[k] += v
				}
				for k, v := range pr.AssertHit {
					res.AssertHit[k] += v
				}
				res.Violations = append(res.Violations, pr.Violations...)
				switch pr.Status {
				case PathOK:
					if pr.SymBranch > 0 {
						res.SymPaths++
					}
					if len(res.Samples) < 5 && pr.Sample != "" {
						res.Samples = append(res.Samples, pr.Sample)
					}
				case PathPruned, PathViolation:
				default:
					if len(res.Problems) < 20 {
						res.Problems = append(res.Problems, pr.Status.String()+": "+pr.Msg)
					}
				}
				stop := false
				if ec.MaxPaths > 0 && res.Paths >= ec.MaxPaths {
					stop = true
				}
				if !deadline.IsZero() && time.Now().After(deadline) {
					stop = true
				}
				if ec.Verbose && res.Paths%200 == 0 {
					fmt.Fprintf(os.Stderr, "[%s] paths=%d status=%v queue=%d\n", ec.HarnessFn, res.Paths, res.ByStatus, len(wl.items))
				}
				rmu.Unlock()
				if stop {
					truncated = true
					wl.stop()
					break
				}
			}
			rmu.Lock()
			for k, v := range i.funcsEntered {
				res.Funcs[k] += v
			}
			for k, v := range i.intrHit {
				res.Intrinsics[k] += v
			}
			res.OpaqueFmt += i.opaqueFmt
			st := i.solver.Stats
			res.Solver.Queries += st.Queries
			res.Solver.Sat += st.Sat
			res.Solver.Unsat += st.Unsat
			res.Solver.Unknown += st.Unknown
			res.Solver.Errors += st.Errors
			res.Solver.SolverSec += st.SolverSec
			for k, v := range st.BySolver {
				res.Solver.BySolver[k] += v
			}
			rmu.Unlock()
		}(w)
	}
	wg.Wait()
	if firstErr != nil {
		return nil, firstErr
	}
	res.Exhausted = !truncated
	res.WallSec = time.Since(t0).Seconds()
	sort.Strings(res.Problems)
	return res, nil
}

func (p *Program) newInterpreter(ec ExploreConfig, w int) (*interpreter, error) {
	ctx := smt.NewCtx()
	so := ec.Solver
	solver, err := smt.NewSolver(ctx, so)
	if err != nil {
		return nil, err
	}
	i := &interpreter{
		prog:         p.Prog,
		globals:      map[*ssa.Global]*value{},
		sizes:        p.Sizes,
		opts:         ec.Opts,
		ctx:          ctx,
		solver:       solver,
		funcsEntered: map[string]int{},
		intrHit:      map[string]int{},
		env:          ec.Env,
	}
	if ec.SaveQueriesDir != "" && w == 0 {
		n := 0
		solver.SaveQuery = func(script string, r smt.Result) {
			if n < 200 {
				os.WriteFile(fmt.Sprintf("%s/q%04d_%s.smt2", ec.SaveQueriesDir, n, r), []byte(script), 0644)
				n++
			}
		}
	}
	if ec.MapOrder == "reverse" {
		i.mapOrder = func(m *omap, e []*mentry) []*mentry {
			for a, b := 0, len(e)-1; a < b; a, b = a+1, b-1 {
				e[a], e[b] = e[b], e[a]
			}
			return e
		}
	}
	rt := p.Prog.ImportedPackage("runtime")
	if rt == nil {
		return nil, fmt.Errorf("program does not include package runtime")
	}
	i.runtimeErrorString = rt.Type("errorString").Object().Type()
	i.initAllowed = map[*ssa.Package]bool{}
	for _, path := range append(append([]string{}, ec.OnceInit...), ec.PathInit...) {
		if sp := p.byPath[path]; sp != nil {
			i.initAllowed[sp] = true
		}
	}
	i.params = ec.Params
	i.zeroStubs = map[string]bool{}
	for _, z := range ec.ZeroStubs {
		i.zeroStubs[z] = true
	}
	// once-per-worker initialisation of immutable-table packages
	i.path = newPathState(WorkItem{})
	i.stubs = map[string]value{}
	i.resetPerPath()
	for _, path := range ec.OnceInit {
		sp := p.byPath[path]
		if sp == nil {
			continue
		}
		if err := i.runInit(sp); err != nil {
			if !warnedInit[path] {
				warnedInit[path] = true
				fmt.Fprintf(os.Stderr, "warning: package %s could not be initialised in the engine (%v); its package-level variables stay zero\n", path, firstLineOf(err.Error()))
			}
		}
	}
	i.onceGlobals = map[*ssa.Global]bool{}
	for g := range i.globals {
		i.onceGlobals[g] = true
	}
	return i, nil
}

var warnedInit = map[string]bool{}

func firstLineOf(s string) string {
	if k := strings.IndexByte(s, '\n'); k >= 0 {
		s = s[:k]
	}
	if len(s) > 200 {
		s = s[:200]
	}
	return s
}

func newPathState(item WorkItem) *pathState {
	return &pathState{
		prefix:     item.Prefix,
		model:      item.Model,
		itemModel:  item.Model,
		modelValid: len(item.Prefix) == 0,
		reached:    map[string]int{},
		assertHit:  map[string]int{},
		nondetSeq:  map[string]int{},
	}
}

func (i *interpreter) resetPerPath() {
	i.goq = nil
	i.stubs = map[string]value{}
	i.nativeState = map[string]interface{}{}
	i.onceDone = map[*value]bool{}
	i.curFrame = nil
	i.depth = 0
	i.noFork = false
	i.monoClock = nil
	i.condSignals = 0
	i.jsonSyms = nil
}

// runInit executes the package initialiser of sp only (imported packages' initialisers are skipped
// unless they are themselves listed).
func (i *interpreter) runInit(sp *ssa.Package) (err error) {
	defer func() {
		if r := recover(); r != nil {
			err = fmt.Errorf("%v", describePanic(r))
		}
	}()
	initFn := sp.Func("init")
	if initFn == nil {
		return nil
	}
	call(i, nil, token.NoPos, initFn, nil)
	return nil
}

func describePanic(r interface{}) string {
	switch r := r.(type) {
	case targetPanic:
		return "target panic: " + panicString(r)
	case endPath:
		return r.status.String() + ": " + r.msg
	case unsupportedErr:
		return r.Error()
	case error:
		return r.Error()
	}
	return fmt.Sprint(r)
}

func panicString(p targetPanic) string {
	switch v := p.v.(type) {
	case iface:
		if s, ok := v.v.(string); ok {
			return s
		}
		return toString(v.v)
	}
	return toString(p.v)
}

// runPath executes the harness once along the given prefix.
func (i *interpreter) runPath(hf *ssa.Function, item WorkItem, ec ExploreConfig) (pr PathResult) {
	ps := newPathState(item)
	if len(item.Prefix) == 0 {
		ps.model = map[string]uint64{}
	} else if item.Model == nil {
		ps.modelValid = false
	}
	i.path = ps
	i.resetPerPath()
	// fresh globals for per-path packages
	for g := range i.globals {
		if !i.onceGlobals[g] {
			delete(i.globals, g)
		}
	}
	i.solver.PopTo(1)
	i.solver.Push()
	defer func() {
		pr.Decisions = ps.decisions
		pr.SymBranch = ps.symBranch
		pr.Children = ps.children
		pr.Violations = ps.violations
		pr.Asserts = ps.asserts
		pr.Reached = ps.reached
		pr.AssertHit = ps.assertHit
		pr.Steps = ps.steps
		i.solver.PopTo(1)
	}()
	func() {
		defer func() {
			r := recover()
			if r == nil {
				return
			}
			switch r := r.(type) {
			case endPath:
				pr.Status, pr.Msg = r.status, r.msg
			case unsupportedErr:
				pr.Status, pr.Msg = PathUnsupported, r.msg+" @ "+i.where()
			case targetPanic:
				// an uncaught panic of the target program is a property violation
				msg := "uncaught panic: " + panicString(r)
				// an error (or Stringer) value: show its text
				if iv, ok := r.v.(iface); ok && iv.t != nil {
					if _, isStr := iv.v.(string); !isStr {
						func() {
							defer func() { recover() }()
							if s, ok := i.methodString(nil, iv, "Error", "String"); ok {
								msg = "uncaught panic: " + toString(s)
							}
						}()
					}
				}
				func() {
					defer func() {
						if rr := recover(); rr != nil {
							pr.Status, pr.Msg = PathInconclusive, "panic path without model: "+describePanic(rr)
						}
					}()
					i.ensureModel()
					i.recordViolation("no-panic", ps.model, msg)
					pr.Status, pr.Msg = PathViolation, msg
				}()
			default:
				pr.Status, pr.Msg = PathUnsupported, fmt.Sprintf("engine crash: %v\n%s", r, debug.Stack())
			}
		}()
		for _, path := range ec.PathInit {
			sp := i.prog.ImportedPackage(path)
			if sp == nil {
				panic(unsupported("init package not loaded: " + path))
			}
			if err := i.runInit(sp); err != nil {
				panic(unsupported("init of " + path + ": " + err.Error()))
			}
		}
		call(i, nil, token.NoPos, hf, nil)
		if ps.pos < len(ps.prefix) {
			panic(unsupported(fmt.Sprintf("replay divergence: path ended after %d of %d prefix decisions", ps.pos, len(ps.prefix))))
		}
		pr.Status = PathOK
		if len(ps.violations) > 0 {
			pr.Status = PathViolation
		}
		if ps.modelValid || ps.model != nil {
			pr.Sample = sampleOf(ps, i.ctx)
		}
	}()
	return pr
}

// HarnessLabels returns the Assert/Reach labels (constant strings) that occur in the
// harness function and in the harness-file functions it (transitively) calls.
func (p *Program) HarnessLabels(pkg, fn string) []string {
	hp := p.byPath[pkg]
	if hp == nil {
		return nil
	}
	root := hp.Func(fn)
	if root == nil {
		return nil
	}
	seen := map[*ssa.Function]bool{}
	labels := map[string]bool{}
	var visit func(f *ssa.Function)
	visit = func(f *ssa.Function) {
		if f == nil || seen[f] || f.Blocks == nil {
			return
		}
		seen[f] = true
		pos := p.Prog.Fset.Position(f.Pos())
		if !strings.Contains(pos.Filename, "zz_verif_") {
			return
		}
		for _, b := range f.Blocks {
			for _, in := range b.Instrs {
				if mc, ok := in.(*ssa.MakeClosure); ok {
					visit(mc.Fn.(*ssa.Function))
				}
				c, ok := in.(ssa.CallInstruction)
				if !ok {
					continue
				}
				cc := c.Common()
				callee := cc.StaticCallee()
				if callee == nil {
					continue
				}
				name := callee.String()
				name = strings.Replace(name, "symgo/zzverif.", zz, 1)
				switch name {
				case zz + "Assert":
					if k, ok := cc.Args[1].(*ssa.Const); ok {
						labels[constString(k)] = true
					}
				case zz + "Reach":
					if k, ok := cc.Args[0].(*ssa.Const); ok {
						labels[constString(k)] = true
					}
				default:
					visit(callee)
				}
			}
		}
		for _, af := range f.AnonFuncs {
			visit(af)
		}
	}
	visit(root)
	var out []string
	for l := range labels {
		out = append(out, l)
	}
	sort.Strings(out)
	return out
}

func constString(k *ssa.Const) string {
	v := constValue(k)
	if s, ok := v.(string); ok {
		return s
	}
	return ""
}
