// Derived from golang.org/x/tools/go/ssa/interp (BSD licence, see LICENSE.xtools),
// extended with symbolic scalars (smt terms), symbolic-byte strings and ordered maps.

package interp

// Values
//
// All interpreter values are "boxed" in the empty interface, value.
// The range of possible dynamic types within value are:
//
// - bool, numbers (all built-in int/float/complex types are distinguished)
// - *smt.Term --- a symbolic bool (W==0) or integer (W==bit width of the static type)
// - string --- a fully concrete string
// - sstr --- a string of concrete length with at least one symbolic byte
// - *omap --- maps (insertion ordered)
// - *channel
// - []value --- slices
// - iface --- interfaces.
// - structure --- structs.  Fields are ordered and accessed by numeric indices.
// - array --- arrays.
// - *value --- pointers.  Careful: *value is a distinct type from *array etc.
// - *ssa.Function, *ssa.Builtin, *closure --- functions.
// - tuple --- as returned by Return, Next, "value,ok" modes, etc.
// - iter --- iterators from 'range' over map or string.
// - bad --- a poison pill for locals that have gone out of scope.
// - **deferred -- the address of a frame's defer stack for a Defer._Stack.
// - native --- an opaque host object (compiled regexp, ...)

import (
	"bytes"
	"fmt"
	"go/types"
	"sync"
	"unsafe"

	"golang.org/x/tools/go/ssa"
	"golang.org/x/tools/go/types/typeutil"

	"symgo/smt"
)

type value interface{}

type tuple []value

type array []value

type iface struct {
	t types.Type // never an "untyped" type
	v value
}

type structure []value

// sstr is a string with symbolic bytes: each element is a uint8 or a *smt.Term of width 8.
type sstr []value

// native wraps a host object.
type native struct {
	v interface{}
}

// For map, array, *array, slice, string or channel.
type iter interface {
	// next returns a Tuple (key, value, ok).
	next() tuple
}

type closure struct {
	Fn  *ssa.Function
	Env []value
}

type bad struct{}

var (
	mu     sync.Mutex
	hasher = typeutil.MakeHasher()
)

// nil-tolerant variant of types.Identical.
func sameType(x, y types.Type) bool {
	if x == nil {
		return y == nil
	}
	return y != nil && types.Identical(x, y)
}

// isScalarTerm reports whether v is symbolic.
func isTerm(v value) bool {
	_, ok := v.(*smt.Term)
	return ok
}

// equalsV returns x == y according to Go's equivalence relation for type t,
// as a bool or, when symbolic scalars are involved, a Bool term.
func (i *interpreter) equalsV(t types.Type, x, y value) value {
	switch x := x.(type) {
	case *smt.Term:
		return i.symEq(x, y)
	case sstr:
		return i.strEq(x, y)
	case string:
		switch y := y.(type) {
		case string:
			return x == y
		case sstr:
			return i.strEq(y, x)
		}
	case structure:
		y := y.(structure)
		tStruct := t.Underlying().(*types.Struct)
		var acc value = true
		for k, n := 0, tStruct.NumFields(); k < n; k++ {
			if f := tStruct.Field(k); f.Name() != "_" {
				acc = i.andV(acc, i.equalsV(f.Type(), x[k], y[k]))
				if acc == false {
					return false
				}
			}
		}
		return acc
	case array:
		y := y.(array)
		tElt := t.Underlying().(*types.Array).Elem()
		var acc value = true
		for k := range x {
			acc = i.andV(acc, i.equalsV(tElt, x[k], y[k]))
			if acc == false {
				return false
			}
		}
		return acc
	case iface:
		y := y.(iface)
		if !sameType(x.t, y.t) {
			return false
		}
		if x.t == nil {
			return true
		}
		return i.equalsV(x.t, x.v, y.v)
	case *value:
		return x == y.(*value)
	case *channel:
		return x == y.(*channel)
	case unsafe.Pointer:
		return x == y.(unsafe.Pointer)
	case native:
		yn, ok := y.(native)
		return ok && x.v == yn.v
	}
	if isTerm(y) {
		return i.symEq(y.(*smt.Term), x)
	}
	switch x := x.(type) {
	case bool:
		return x == y.(bool)
	case int:
		return x == y.(int)
	case int8:
		return x == y.(int8)
	case int16:
		return x == y.(int16)
	case int32:
		return x == y.(int32)
	case int64:
		return x == y.(int64)
	case uint:
		return x == y.(uint)
	case uint8:
		return x == y.(uint8)
	case uint16:
		return x == y.(uint16)
	case uint32:
		return x == y.(uint32)
	case uint64:
		return x == y.(uint64)
	case uintptr:
		return x == y.(uintptr)
	case float32:
		return x == y.(float32)
	case float64:
		return x == y.(float64)
	case complex64:
		return x == y.(complex64)
	case complex128:
		return x == y.(complex128)
	}

	// Since map, func and slice don't support comparison, this
	// case is only reachable if one of x or y is literally nil
	// (handled in eqnil) or via interface{} values.
	panic(targetPanic{iface{t: nil, v: fmt.Sprintf("runtime error: comparing uncomparable type %s", t)}})
}

// load returns the value of type T in *addr.
func load(T types.Type, addr *value) value {
	switch T := T.Underlying().(type) {
	case *types.Struct:
		v, ok := (*addr).(structure)
		if !ok {
			panic(fmt.Sprintf("load: cell holds %T, want struct %s", *addr, T))
		}
		a := make(structure, len(v))
		for i := range a {
			a[i] = load(T.Field(i).Type(), &v[i])
		}
		return a
	case *types.Array:
		v := (*addr).(array)
		a := make(array, len(v))
		for i := range a {
			a[i] = load(T.Elem(), &v[i])
		}
		return a
	case *types.Basic:
		if T.Kind() == types.String {
			// reinterpretation of a []byte cell as a string (strings.Builder idiom)
			if b, ok := (*addr).([]value); ok {
				return mkstr(append([]value(nil), b...))
			}
		}
		return *addr
	default:
		return *addr
	}
}

// store stores value v of type T into *addr.
func store(T types.Type, addr *value, v value) {
	switch T := T.Underlying().(type) {
	case *types.Struct:
		lhs := (*addr).(structure)
		rhs := v.(structure)
		for i := range lhs {
			store(T.Field(i).Type(), &lhs[i], rhs[i])
		}
	case *types.Array:
		lhs := (*addr).(array)
		rhs := v.(array)
		for i := range lhs {
			store(T.Elem(), &lhs[i], rhs[i])
		}
	default:
		*addr = v
	}
}

// Prints in the style of built-in println.
func writeValue(buf *bytes.Buffer, v value) {
	switch v := v.(type) {
	case nil, bool, int, int8, int16, int32, int64, uint, uint8, uint16, uint32, uint64, uintptr, float32, float64, complex64, complex128, string:
		fmt.Fprintf(buf, "%v", v)

	case *smt.Term:
		buf.WriteString("<" + v.String() + ">")

	case sstr:
		buf.WriteString("\"")
		for _, b := range v {
			if c, ok := b.(uint8); ok {
				buf.WriteByte(c)
			} else {
				buf.WriteString("<" + b.(*smt.Term).String() + ">")
			}
		}
		buf.WriteString("\"")

	case *omap:
		buf.WriteString("map[")
		sep := ""
		if v != nil {
			for _, e := range v.entries {
				if e.deleted {
					continue
				}
				buf.WriteString(sep)
				sep = " "
				writeValue(buf, e.key)
				buf.WriteString(":")
				writeValue(buf, e.val)
			}
		}
		buf.WriteString("]")

	case *channel:
		fmt.Fprintf(buf, "%p", v)

	case *value:
		if v == nil {
			buf.WriteString("<nil>")
		} else {
			fmt.Fprintf(buf, "%p", v)
		}

	case iface:
		fmt.Fprintf(buf, "(%s, ", v.t)
		writeValue(buf, v.v)
		buf.WriteString(")")

	case structure:
		buf.WriteString("{")
		for i, e := range v {
			if i > 0 {
				buf.WriteString(" ")
			}
			writeValue(buf, e)
		}
		buf.WriteString("}")

	case array:
		buf.WriteString("[")
		for i, e := range v {
			if i > 0 {
				buf.WriteString(" ")
			}
			writeValue(buf, e)
		}
		buf.WriteString("]")

	case []value:
		buf.WriteString("[")
		for i, e := range v {
			if i > 0 {
				buf.WriteString(" ")
			}
			writeValue(buf, e)
		}
		buf.WriteString("]")

	case *ssa.Function, *ssa.Builtin, *closure:
		fmt.Fprintf(buf, "%p", v) // (an address)

	case tuple:
		buf.WriteString("(")
		for i, e := range v {
			if i > 0 {
				buf.WriteString(", ")
			}
			writeValue(buf, e)
		}
		buf.WriteString(")")

	default:
		fmt.Fprintf(buf, "<%T>", v)
	}
}

// Implements printing of Go values in the style of built-in println.
func toString(v value) string {
	var b bytes.Buffer
	writeValue(&b, v)
	return b.String()
}
