package quota

// C36 — accepted quota groups always fit inside their parents.
//
// Inductive step: an arbitrary tree state that satisfies the fit invariant (written
// here from the property statement, with saturating arithmetic), one creation or
// limit-update request with arbitrary values, then: accepted => invariant still
// holds; refused => nothing changed.

import (
	"github.com/snapcore/snapd/gadget/quantity"
	zz "github.com/snapcore/snapd/zzverif"
)

const c36maxU = ^uint64(0)

func c36addSat(a, b uint64) uint64 {
	s := a + b
	return zz.IteU64(s < a, c36maxU, s)
}

func c36maxU64(a, b uint64) uint64 { return zz.IteU64(a > b, a, b) }

// resource kinds
const (
	c36Mem = iota
	c36Threads
	c36CPU
)

// c36limit is the group's own limit for the kind, as a non-negative quantity.
func c36limit(g *Group, kind int) uint64 {
	switch kind {
	case c36Mem:
		return uint64(g.MemoryLimit)
	case c36Threads:
		return uint64(g.ThreadLimit)
	}
	if g.CPULimit == nil {
		return 0
	}
	// count*percentage, with count 0 meaning "all cpus available to the group"
	cnt := g.CPULimit.Count
	if cnt == 0 {
		cnt = c36ncpu
	}
	return zz.IteU64(g.CPULimit.Percentage == 0, 0, uint64(cnt*g.CPULimit.Percentage))
}

var c36ncpu int

// c36eff is the effective reservation of a group: its own limit, or what its children reserve if that is more.
func c36eff(g *Group, kind int) uint64 {
	return c36maxU64(c36limit(g, kind), c36children(g, kind))
}

func c36children(g *Group, kind int) uint64 {
	var s uint64
	for _, c := range g.subGroups {
		s = c36addSat(s, c36eff(c, kind))
	}
	return s
}

// c36inv: every group with a limit has children whose combined effective reservations do not exceed it.
func c36inv(all []*Group, kind int) bool {
	ok := true
	for _, g := range all {
		l := c36limit(g, kind)
		ok = zz.And(ok, zz.Or(l == 0, c36children(g, kind) <= l))
	}
	return ok
}

// c36tree builds one of the tree shapes; returns all groups, root first.
func c36tree(shape int) []*Group {
	mk := func(name string, parent *Group) *Group {
		g := &Group{Name: name}
		if parent != nil {
			g.ParentGroup = parent.Name
			g.parentGroup = parent
			parent.subGroups = append(parent.subGroups, g)
			parent.SubGroups = append(parent.SubGroups, name)
		}
		return g
	}
	root := mk("groot", nil)
	switch shape {
	case 0: // root -> c
		c := mk("gc", root)
		return []*Group{root, c}
	case 1: // root -> c1, c2
		c1 := mk("gc1", root)
		c2 := mk("gc2", root)
		return []*Group{root, c1, c2}
	case 2: // root -> m -> c
		m := mk("gm", root)
		c := mk("gc", m)
		return []*Group{root, m, c}
	case 3: // root -> m -> c1, c2
		m := mk("gm", root)
		c1 := mk("gc1", m)
		c2 := mk("gc2", m)
		return []*Group{root, m, c1, c2}
	default: // root -> m1 -> c ; root -> m2
		m1 := mk("gm1", root)
		c := mk("gc", m1)
		m2 := mk("gm2", root)
		return []*Group{root, m1, c, m2}
	}
}

type c36snap struct {
	mem     []quantity.Size
	threads []int
	cnt     []int
	pct     []int
	hasCPU  []bool
	nsub    []int
}

func c36snapshot(all []*Group) c36snap {
	var s c36snap
	for _, g := range all {
		s.mem = append(s.mem, g.MemoryLimit)
		s.threads = append(s.threads, g.ThreadLimit)
		if g.CPULimit != nil {
			s.cnt = append(s.cnt, g.CPULimit.Count)
			s.pct = append(s.pct, g.CPULimit.Percentage)
			s.hasCPU = append(s.hasCPU, true)
		} else {
			s.cnt = append(s.cnt, 0)
			s.pct = append(s.pct, 0)
			s.hasCPU = append(s.hasCPU, false)
		}
		s.nsub = append(s.nsub, len(g.subGroups))
	}
	return s
}

func c36unchanged(all []*Group, s c36snap) bool {
	ok := true
	for i, g := range all {
		ok = zz.And(ok, g.MemoryLimit == s.mem[i])
		ok = zz.And(ok, g.ThreadLimit == s.threads[i])
		ok = zz.And(ok, (g.CPULimit != nil) == s.hasCPU[i])
		if g.CPULimit != nil && s.hasCPU[i] {
			ok = zz.And(ok, zz.And(g.CPULimit.Count == s.cnt[i], g.CPULimit.Percentage == s.pct[i]))
		}
		ok = zz.And(ok, len(g.subGroups) == s.nsub[i] && len(g.SubGroups) == s.nsub[i])
	}
	return ok
}

func c36run(kind int, label string) {
	c36ncpu = 4
	runtimeNumCPU = func() int { return c36ncpu }
	shape := zz.NondetRange("shape", 0, zz.Param("c36.shapes", 3))
	all := c36tree(shape)
	// arbitrary limits on every group
	for _, g := range all {
		switch kind {
		case c36Mem:
			g.MemoryLimit = quantity.Size(zz.NondetU64(g.Name + ".mem"))
			zz.Assume(uint64(g.MemoryLimit) != c36maxU)
			if zz.Param("c36.wide", 1) == 0 {
				zz.Assume(uint64(g.MemoryLimit) < 1<<62)
			}
		case c36Threads:
			g.ThreadLimit = zz.NondetInt(g.Name + ".threads")
			zz.Assume(zz.And(g.ThreadLimit >= 0, g.ThreadLimit != int(^uint(0)>>1)))
			if zz.Param("c36.wide", 1) == 0 {
				zz.Assume(g.ThreadLimit < 1<<60)
			}
		case c36CPU:
			if zz.NondetBool(g.Name + ".hascpu") {
				cnt := zz.NondetInt(g.Name + ".cpucount")
				pct := zz.NondetInt(g.Name + ".cpupct")
				zz.Assume(zz.And(zz.And(cnt >= 0, cnt <= 8), zz.And(pct >= 1, pct <= 100)))
				g.CPULimit = &GroupQuotaCPU{Count: cnt, Percentage: pct}
			}
		}
	}
	zz.Assume(c36inv(all, kind))
	pre := c36snapshot(all)

	// one request with arbitrary values on an arbitrary group
	target := all[zz.NondetRange("target", 0, len(all)-1)]
	var res Resources
	switch kind {
	case c36Mem:
		res.Memory = &ResourceMemory{Limit: quantity.Size(zz.NondetU64("req.mem"))}
		// a limit of exactly 2^64-1 is indistinguishable from a saturated sum: outside the claim
		zz.Assume(uint64(res.Memory.Limit) != c36maxU)
	case c36Threads:
		res.Threads = &ResourceThreads{Limit: zz.NondetInt("req.threads")}
		// a limit of exactly MaxInt is indistinguishable from a saturated sum: outside the claim
		zz.Assume(res.Threads.Limit != int(^uint(0)>>1))
	case c36CPU:
		cnt := zz.NondetInt("req.cpucount")
		pct := zz.NondetInt("req.cpupct")
		zz.Assume(zz.And(zz.And(cnt >= 0, cnt <= 8), zz.And(pct >= 0, pct <= 100)))
		res.CPU = &ResourceCPU{Count: cnt, Percentage: pct}
	}
	var err error
	if zz.NondetBool("create") {
		var sub *Group
		sub, err = target.NewSubGroup("gnew", res)
		if err == nil {
			all = append(all, sub)
			zz.Reach("created")
		}
	} else {
		err = target.UpdateQuotaLimits(res)
		if err == nil {
			zz.Reach("updated")
		}
	}
	if err != nil {
		zz.Assert(c36unchanged(all, pre), label+"/refused-changes-nothing")
		zz.Reach("refused")
		return
	}
	zz.Assert(c36inv(all, kind), label+"/accepted-fits")
	zz.Reach("end")
}

func Harness_C36_Memory()  { c36run(c36Mem, "C36/memory") }
func Harness_C36_Threads() { c36run(c36Threads, "C36/threads") }
func Harness_C36_CPU()     { c36run(c36CPU, "C36/cpu") }

// ---- CPU sets: children's sets lie within the nearest ancestor's set ----

func c36subset(name string, n int) []int {
	var s []int
	for c := 0; c < n; c++ {
		if zz.NondetBool(name + ".cpu" + string(rune('0'+c))) {
			s = append(s, c)
		}
	}
	return s
}

func c36has(s []int, e int) bool {
	for _, x := range s {
		if x == e {
			return true
		}
	}
	return false
}

func c36within(a, b []int) bool {
	for _, x := range a {
		if !c36has(b, x) {
			return false
		}
	}
	return true
}

func c36localSet(g *Group) []int {
	if g.CPULimit == nil {
		return nil
	}
	return g.CPULimit.CPUSet
}

// every group with a CPU set stays inside the set of its nearest ancestor that has one
func c36setInv(all []*Group) bool {
	for _, g := range all {
		s := c36localSet(g)
		if len(s) == 0 {
			continue
		}
		for p := g.parentGroup; p != nil; p = p.parentGroup {
			if ps := c36localSet(p); len(ps) != 0 {
				if !c36within(s, ps) {
					return false
				}
				break
			}
		}
	}
	return true
}

func Harness_C36_CPUSet() {
	c36ncpu = 4
	runtimeNumCPU = func() int { return c36ncpu }
	ncpus := zz.Param("c36.cpus", 3)
	shapes := []int{0, 2, 1, 3}
	shape := shapes[zz.NondetRange("shape", 0, zz.Param("c36.setshapes", 1))]
	all := c36tree(shape)
	for _, g := range all {
		if s := c36subset(g.Name, ncpus); len(s) > 0 {
			g.CPULimit = &GroupQuotaCPU{CPUSet: s}
		}
	}
	zz.Assume(c36setInv(all))
	var before [][]int
	for _, g := range all {
		before = append(before, append([]int(nil), c36localSet(g)...))
	}
	target := all[zz.NondetRange("target", 0, len(all)-1)]
	res := Resources{CPUSet: &ResourceCPUSet{CPUs: c36subset("req", ncpus)}}
	var err error
	if zz.NondetBool("create") {
		var sub *Group
		sub, err = target.NewSubGroup("gnew", res)
		if err == nil {
			all = append(all, sub)
			before = append(before, append([]int(nil), c36localSet(sub)...))
			zz.Reach("created")
		}
	} else {
		err = target.UpdateQuotaLimits(res)
		if err == nil {
			zz.Reach("updated")
		}
	}
	if err != nil {
		same := true
		for i, g := range all {
			now := c36localSet(g)
			same = same && len(now) == len(before[i]) && c36within(now, before[i])
		}
		zz.Assert(same, "C36/cpuset/refused-changes-nothing")
		zz.Reach("refused")
		return
	}
	zz.Assert(c36setInv(all), "C36/cpuset/accepted-within-ancestor")
	zz.Reach("end")
}
