package naming

// C24 — all components agree on which snap, instance, component and tag names are valid.
//
// Daemon side only: the Go validators are compared, on symbolic ASCII strings, with a reference
// grammar transcribed from the rules snap-confine's validators (cmd/libsnap-confine-private/snap.c)
// document: lower-case letters, digits and dashes, at least one letter, no leading, trailing or
// double dash, 2..40 bytes; instance key 1..10 of [a-z0-9]; instance name at most 51 bytes.
// The C code itself is not encoded (see DESIGN.md).

import (
	zz "github.com/snapcore/snapd/zzverif"
)

func c24ascii(name string, n int) string {
	s := zz.NondetString(name, n)
	ok := true
	for k := 0; k < n; k++ {
		ok = zz.And(ok, s[k] < 0x80)
	}
	zz.Assume(ok)
	return s
}

// c24string is a symbolic string of one of the given lengths: short ones fully symbolic, long ones
// (around the 40/10 limits) symbolic in the first and last two bytes with a filler in between.
func c24string(name string, lens []int, filler byte) string {
	n := lens[zz.NondetRange(name+".len", 0, len(lens)-1)]
	if n <= 4 {
		return c24ascii(name, n)
	}
	mid := make([]byte, n-4)
	for k := range mid {
		mid[k] = filler
	}
	return c24ascii(name+".head", 2) + string(mid) + c24ascii(name+".tail", 2)
}

func c24lower(b byte) bool { return zz.And(b >= 'a', b <= 'z') }
func c24digit(b byte) bool { return zz.And(b >= '0', b <= '9') }

// c24refSnapName: the documented snap name grammar.
func c24refSnapName(s string) bool {
	n := len(s)
	if n < 2 || n > 40 {
		return false
	}
	ok := true
	letter := false
	for k := 0; k < n; k++ {
		b := s[k]
		ok = zz.And(ok, zz.Or(c24lower(b), zz.Or(c24digit(b), b == '-')))
		letter = zz.Or(letter, c24lower(b))
		if k+1 < n {
			ok = zz.And(ok, zz.Not(zz.And(b == '-', s[k+1] == '-')))
		}
	}
	ok = zz.And(ok, zz.And(s[0] != '-', s[n-1] != '-'))
	return zz.And(ok, letter)
}

func c24refKey(s string) bool {
	n := len(s)
	if n < 1 || n > 10 {
		return false
	}
	ok := true
	for k := 0; k < n; k++ {
		ok = zz.And(ok, zz.Or(c24lower(s[k]), c24digit(s[k])))
	}
	return ok
}

// c24refName: ^[a-z](?:-?[a-z0-9])*$ — hook, plug, slot and interface names.
func c24refName(s string) bool {
	n := len(s)
	if n < 1 {
		return false
	}
	ok := c24lower(s[0])
	for k := 1; k < n; k++ {
		b := s[k]
		alnum := zz.Or(c24lower(b), c24digit(b))
		ok = zz.And(ok, zz.Or(alnum, zz.And(b == '-', zz.And(s[k-1] != '-', k+1 < n))))
	}
	return ok
}

// c24refApp: ^[a-zA-Z0-9](?:-?[a-zA-Z0-9])*$
func c24refApp(s string) bool {
	n := len(s)
	if n < 1 {
		return false
	}
	alnum := func(b byte) bool {
		return zz.Or(c24lower(b), zz.Or(c24digit(b), zz.And(b >= 'A', b <= 'Z')))
	}
	ok := alnum(s[0])
	for k := 1; k < n; k++ {
		b := s[k]
		ok = zz.And(ok, zz.Or(alnum(b), zz.And(b == '-', zz.And(s[k-1] != '-', k+1 < n))))
	}
	return ok
}

func c24iff(a, b bool) bool { return zz.Or(zz.And(a, b), zz.And(zz.Not(a), zz.Not(b))) }

// Harness_C24_SnapName: ValidateSnap and ComponentRef.Validate against the grammar.
func Harness_C24_SnapName() {
	s := c24string("name", []int{0, 1, 2, 3, 4, 39, 40, 41}, 'a')
	want := c24refSnapName(s)
	zz.Assert(c24iff(ValidateSnap(s) == nil, want), "C24/snap-name-grammar")
	// a component is named like a snap, on both parts of the reference
	zz.Assert(c24iff(ComponentRef{SnapName: "some-snap", ComponentName: s}.Validate() == nil, want), "C24/component-name-grammar")
	zz.Assert(c24iff(ComponentRef{SnapName: s, ComponentName: "comp"}.Validate() == nil, want), "C24/component-snap-name-grammar")
	zz.Reach("end")
}

// Harness_C24_InstanceName: ValidateInstance on name[_key].
func Harness_C24_InstanceName() {
	name := c24string("name", []int{1, 2, 3, 40, 41}, 'a')
	s := name
	want := c24refSnapName(name)
	// the store name is what precedes the first underscore: the harness puts that one itself
	wantSplit := true
	for k := 0; k < len(name); k++ {
		wantSplit = zz.And(wantSplit, name[k] != '_')
	}
	if zz.NondetBool("has-key") {
		key := c24string("key", []int{0, 1, 2, 10, 11}, '0')
		s = name + "_" + key
		want = zz.And(want, c24refKey(key))
	}
	got := ValidateInstance(s) == nil
	zz.Assert(zz.Implies(wantSplit, c24iff(got, want)), "C24/instance-name-grammar")
	zz.Assert(zz.Implies(got, len(s) <= 51), "C24/instance-name-within-snap-confine-limit")
	zz.Reach("end")
}

// Harness_C24_SecurityTag: ParseSecurityTag accepts exactly snap.<instance>[+<component>].(<app>|hook.<hook>)
// and reports the pieces it was built from.
func Harness_C24_SecurityTag() {
	inst := c24string("instance", []int{2, 3}, 'a')
	if zz.NondetBool("has-key") {
		inst = inst + "_" + c24string("key", []int{1, 2}, '0')
	}
	comp := ""
	hasComp := zz.NondetBool("has-component")
	if hasComp {
		comp = c24string("component", []int{0, 1, 2, 3, 40, 41}, 'a')
	}
	hook := zz.NondetBool("is-hook")
	last := c24string("last", []int{0, 1, 2, 3}, 'a')
	tag := "snap." + inst
	if hasComp {
		tag += "+" + comp
	}
	if hook {
		tag += ".hook." + last
	} else {
		tag += "." + last
	}
	// the pieces must not contain separators for the tag to read back as built
	clean := true
	for _, piece := range []string{inst, comp, last} {
		for k := 0; k < len(piece); k++ {
			clean = zz.And(clean, zz.And(piece[k] != '.', piece[k] != '+'))
		}
	}
	zz.Assume(clean)
	// instance validity by the reference
	instOK := false
	{
		us := -1
		for k := 0; k < len(inst) && us < 0; k++ {
			if inst[k] == '_' {
				us = k
			}
		}
		if us < 0 {
			instOK = c24refSnapName(inst)
		} else {
			instOK = zz.And(c24refSnapName(inst[:us]), c24refKey(inst[us+1:]))
		}
	}
	want := instOK
	if hasComp {
		want = zz.And(want, c24refSnapName(comp))
	}
	if hook {
		want = zz.And(want, c24refName(last))
	} else {
		// components have no apps
		want = zz.And(want, zz.And(!hasComp, c24refApp(last)))
	}
	parsed, err := ParseSecurityTag(tag)
	zz.Assert(c24iff(err == nil, want), "C24/security-tag-accepted-exactly-when-its-pieces-are-valid")
	if err == nil {
		zz.Assert(zz.StrEq(parsed.InstanceName(), inst), "C24/tag-belongs-to-the-instance")
		if h, ok := parsed.(HookSecurityTag); ok {
			zz.Assert(hook && zz.StrEq(h.HookName(), last) && zz.StrEq(h.ComponentName(), comp), "C24/hook-tag-pieces")
		} else {
			a := parsed.(AppSecurityTag)
			zz.Assert(!hook && zz.StrEq(a.AppName(), last), "C24/app-tag-pieces")
		}
		zz.Assert(ValidateSecurityTag(tag) == nil, "C24/parsed-tag-validates")
	}
	zz.Reach("end")
}
