package channel

// C34 — channel names normalize consistently; pinned tracks cannot be switched.

import (
	"strings"

	zz "github.com/snapcore/snapd/zzverif"
)

var c34risks = []string{"stable", "candidate", "beta", "edge"}

func c34isRisk(s string) bool {
	return s == "stable" || s == "candidate" || s == "beta" || s == "edge"
}

// c34comp returns one channel component chosen by the solver: empty, a risk name,
// "latest", or a free name of 1 or 2 symbolic lower-case letters/digits.
func c34comp(name string) string {
	switch zz.NondetRange(name+".kind", 0, 7) {
	case 0:
		return ""
	case 1:
		return "stable"
	case 2:
		return "candidate"
	case 3:
		return "beta"
	case 4:
		return "edge"
	case 5:
		return "latest"
	case 6:
		return c34free(name, 1)
	}
	return c34free(name, 2)
}

func c34free(name string, n int) string {
	s := zz.NondetString(name, n)
	for i := 0; i < n; i++ {
		c := s[i]
		zz.Assume(zz.Or(zz.And(c >= 'a', c <= 'z'), zz.And(c >= '0', c <= '9')))
	}
	return s
}

// c34chan assembles 1..max components with '/' separators (so empty parts and extra slashes occur).
func c34chan(name string, max int) (string, []string) {
	k := zz.NondetRange(name+".n", 1, max)
	var parts []string
	for i := 0; i < k; i++ {
		parts = append(parts, c34comp(name+"."+string(rune('0'+i))))
	}
	return strings.Join(parts, "/"), parts
}

// reference validity, from the statement and the documented grammar [track/]risk[/branch]
func c34valid(s string, p []string) bool {
	if s == "" {
		return false
	}
	switch len(p) {
	case 1:
		return true // a risk, or a non-empty track
	case 2:
		if c34isRisk(p[0]) {
			return p[1] != ""
		}
		return p[0] != "" && c34isRisk(p[1])
	case 3:
		return p[0] != "" && c34isRisk(p[1]) && p[2] != ""
	}
	return false
}

func Harness_C34_Parse() {
	s, parts := c34chan("ch", zz.Param("c34.parts", 3))
	c1, err := Parse(s, "amd64")
	zz.Assert((err == nil) == c34valid(s, parts), "C34/accepts-exactly-valid")
	if err != nil {
		zz.Reach("rejected")
		return
	}
	// normalising twice equals normalising once
	c2, err2 := Parse(c1.String(), "amd64")
	zz.Assert(err2 == nil, "C34/normal-form-parses")
	if err2 == nil {
		zz.Assert(c2 == c1, "C34/idempotent")
		zz.Assert(c2.String() == c1.String(), "C34/idempotent-name")
	}
	// the cleaned channel never carries the implicit pieces, always has a risk
	zz.Assert(c1.Track != "latest", "C34/clean-drops-latest")
	zz.Assert(c34isRisk(c1.Risk), "C34/clean-has-risk")
	// the full form names track and risk (and the branch when there is one)
	full := c1.Full()
	fp := strings.Split(full, "/")
	zz.Assert(len(fp) == 2 || len(fp) == 3, "C34/full-has-track-and-risk")
	if len(fp) >= 2 {
		wantTrack := c1.Track
		if wantTrack == "" {
			wantTrack = "latest"
		}
		zz.Assert(fp[0] == wantTrack && fp[0] != "", "C34/full-track")
		zz.Assert(fp[1] == c1.Risk, "C34/full-risk")
		if len(fp) == 3 {
			zz.Assert(fp[2] == c1.Branch && c1.Branch != "", "C34/full-branch")
		} else {
			zz.Assert(c1.Branch == "", "C34/full-branch-absent")
		}
	}
	// the package-level Full agrees for valid input
	f2, ferr := Full(s)
	zz.Assert(ferr == nil && f2 == full, "C34/Full-agrees")
	// the full form is itself a valid channel denoting the same thing
	c3, err3 := Parse(full, "amd64")
	zz.Assert(err3 == nil && c3 == c1, "C34/full-parses-to-same")
	zz.Reach("end")
}

// a risk-only request keeps the current track
func Harness_C34_Resolve() {
	cur, parts := c34chan("cur", zz.Param("c34.parts", 3))
	zz.Assume(c34valid(cur, parts))
	risk := c34risks[zz.NondetRange("risk", 0, 3)]
	newCh := risk
	if zz.NondetBool("withbranch") {
		newCh = risk + "/" + c34free("br", 1)
	}
	curCh, err := ParseVerbatim(cur, "amd64")
	zz.Assert(err == nil, "C34/valid-current-parses")
	got, err := Resolve(cur, newCh)
	zz.Assert(err == nil, "C34/resolve-risk-only-ok")
	if err == nil {
		g, gerr := ParseVerbatim(got, "amd64")
		zz.Assert(gerr == nil, "C34/resolved-is-valid")
		if gerr == nil {
			if c34isRisk(curCh.Track) {
				// a track that is spelled like a risk can only be written in the
				// three-component form; the two-component result cannot carry it
				zz.Assert(g.Track == curCh.Track, "C34/risk-only-keeps-track/risk-named-track")
			} else {
				zz.Assert(g.Track == curCh.Track, "C34/risk-only-keeps-track")
				zz.Assert(g.Risk == risk, "C34/risk-only-sets-risk")
			}
		}
	}
	zz.Reach("end")
}

// under a pinned track a request is resolved within that track or refused
func Harness_C34_Pinned() {
	var track string
	switch zz.NondetRange("track.kind", 0, 2) {
	case 0:
		track = "latest"
	case 1:
		track = c34free("track", 1)
	default:
		track = c34free("track", 2)
	}
	req, _ := c34chan("req", zz.Param("c34.parts", 3))
	got, err := ResolvePinned(track, req)
	if err != nil {
		zz.Reach("refused")
		return
	}
	zz.Assert(got == track || strings.HasPrefix(got, track+"/"), "C34/pinned-result-within-track")
	if g, gerr := ParseVerbatim(got, "amd64"); gerr == nil {
		zz.Assert(g.Track == track, "C34/pinned-parsed-track")
	}
	// a request that is accepted unchanged names the pinned track itself
	if got == req {
		if r, rerr := ParseVerbatim(req, "amd64"); rerr == nil {
			zz.Assert(r.Track == track, "C34/accepted-request-names-pinned-track")
		}
	}
	zz.Reach("end")
}
