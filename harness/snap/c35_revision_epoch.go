package snap

// C35 — revisions and epochs round-trip; epoch compatibility is set intersection.

import (
	zz "github.com/snapcore/snapd/zzverif"
)

func c35bound(digits int) int {
	b := 1
	for i := 0; i < digits; i++ {
		b *= 10
	}
	return b
}

// every revision integer reads back unchanged from its string, JSON and YAML forms
func Harness_C35_RevisionRoundTrip() {
	n := zz.NondetInt("n")
	b := c35bound(zz.Param("c35.digits", 4))
	zz.Assume(n > -b && n < b)
	r := Revision{N: n}
	s := r.String()
	back, err := ParseRevision(s)
	zz.Assert(err == nil, "C35/rev-string-parses")
	zz.Assert(back.N == n, "C35/rev-string-roundtrip")
	js, jerr := r.MarshalJSON()
	zz.Assert(jerr == nil, "C35/rev-json-marshals")
	var rj Revision
	zz.Assert(rj.UnmarshalJSON(js) == nil, "C35/rev-json-parses")
	zz.Assert(rj.N == n, "C35/rev-json-roundtrip")
	y, yerr := r.MarshalYAML()
	zz.Assert(yerr == nil, "C35/rev-yaml-marshals")
	var ry Revision
	uerr := ry.UnmarshalYAML(func(v interface{}) error {
		*(v.(*string)) = y.(string)
		return nil
	})
	zz.Assert(uerr == nil && ry.N == n, "C35/rev-yaml-roundtrip")
	// classification is consistent with the sign
	zz.Assert(r.Unset() == (n == 0) && r.Local() == (n < 0) && r.Store() == (n > 0), "C35/rev-classification")
	zz.Reach("end")
}

func c35digit(c byte) bool { return zz.And(c >= '0', c <= '9') }

// arbitrary revision strings: what is accepted denotes a non-zero revision with the right sign,
// and prints back to something that parses to the same revision
func Harness_C35_RevisionStrings() {
	l := zz.NondetRange("len", 0, zz.Param("c35.strlen", 4))
	s := zz.NondetString("s", l)
	r, err := ParseRevision(s)
	if err != nil {
		zz.Assert(r.N == 0, "C35/rejected-yields-zero")
		zz.Reach("rejected")
		return
	}
	if s == "unset" {
		zz.Assert(r.N == 0, "C35/unset-is-zero")
		return
	}
	zz.Assert(r.N != 0, "C35/accepted-nonzero")
	zz.Assert(l > 0, "C35/empty-rejected")
	if l > 0 {
		zz.Assert((s[0] == 'x') == (r.N < 0), "C35/x-prefix-iff-local")
		// every byte after an optional 'x' and an optional sign is a decimal digit
		start := 0
		if s[0] == 'x' {
			start = 1
		}
		ok := true
		for i := start; i < l; i++ {
			d := c35digit(s[i])
			if i == start {
				d = zz.Or(d, s[i] == '+')
			}
			ok = zz.And(ok, d)
		}
		zz.Assert(ok, "C35/accepted-is-numeric")
	}
	back, berr := ParseRevision(r.String())
	zz.Assert(berr == nil && back == r, "C35/accepted-canonicalises")
	zz.Reach("end")
}

func c35list(name string, max int) []uint32 {
	n := zz.NondetRange(name+".len", -1, max)
	if n < 0 {
		return nil
	}
	l := make([]uint32, n)
	for i := range l {
		l[i] = zz.NondetU32(name)
	}
	return l
}

// reference: set intersection with empty meaning {0}
func c35intersects(r, w []uint32) bool {
	if len(r) == 0 {
		r = []uint32{0}
	}
	if len(w) == 0 {
		w = []uint32{0}
	}
	hit := false
	for _, a := range r {
		for _, b := range w {
			hit = zz.Or(hit, a == b)
		}
	}
	return hit
}

func Harness_C35_EpochCanRead() {
	max := zz.Param("c35.listlen", 3)
	a := Epoch{Read: c35list("a.read", max), Write: c35list("a.write", max)}
	b := Epoch{Read: c35list("b.read", max), Write: c35list("b.write", max)}
	zz.Assert(a.CanRead(b) == c35intersects(a.Read, b.Write), "C35/canread-is-intersection")
	if a.Validate() == nil {
		zz.Assert(a.CanRead(a), "C35/valid-epoch-reads-itself")
		// validity implies the documented shape
		zz.Assert(len(a.Read) <= 10 && len(a.Write) <= 10, "C35/valid-length")
		for i := 1; i < len(a.Read); i++ {
			zz.Assert(a.Read[i-1] < a.Read[i], "C35/valid-read-increasing")
		}
		for i := 1; i < len(a.Write); i++ {
			zz.Assert(a.Write[i-1] < a.Write[i], "C35/valid-write-increasing")
		}
	} else {
		zz.Reach("invalid")
	}
	var nilEpoch *Epoch
	zz.Assert(nilEpoch.CanRead(b) == c35intersects(nil, b.Write), "C35/nil-epoch-reads-zero")
	zz.Reach("end")
}

// structured input: explicitly empty, over-long and non-increasing lists are rejected; accepted input is valid
func Harness_C35_EpochStructured() {
	max := zz.Param("c35.listlen", 3)
	rd := c35list("read", max)
	wr := c35list("write", max)
	var e Epoch
	err := e.fromStructured(structuredEpoch{Read: rd, Write: wr})
	if (rd != nil && len(rd) == 0) || (wr != nil && len(wr) == 0) {
		zz.Assert(err != nil, "C35/explicitly-empty-rejected")
	}
	inc := true
	for i := 1; i < len(rd); i++ {
		inc = zz.And(inc, rd[i-1] < rd[i])
	}
	for i := 1; i < len(wr); i++ {
		inc = zz.And(inc, wr[i-1] < wr[i])
	}
	if err == nil {
		zz.Assert(e.Validate() == nil, "C35/accepted-structured-is-valid")
		zz.Assert(e.CanRead(e), "C35/accepted-structured-reads-itself")
		// non-increasing lists are only acceptable when the epoch is the zero epoch
		zz.Assert(zz.Or(inc, e.IsZero()), "C35/non-increasing-rejected")
	} else {
		zz.Reach("rejected")
	}
	zz.Reach("end")
}

func Harness_C35_EpochTooLong() {
	l := make([]uint32, 11)
	base := zz.NondetU32("base")
	zz.Assume(base < 1<<31)
	for i := range l {
		l[i] = uint32(i) + base
	}
	e := Epoch{Read: l, Write: l[:1]}
	zz.Assert(e.Validate() != nil, "C35/more-than-10-rejected")
	e = Epoch{Read: l[:10], Write: l[:1]}
	zz.Assert(e.Validate() == nil, "C35/exactly-10-accepted")
	zz.Reach("end")
}

// short forms N and N* print and re-parse to an equal epoch; 0* is rejected
func Harness_C35_EpochShortForms() {
	n := zz.NondetU32("n")
	zz.Assume(n < uint32(c35bound(zz.Param("c35.digits", 4))))
	star := zz.NondetBool("star")
	var e Epoch
	if star {
		zz.Assume(n > 0)
		e = Epoch{Read: []uint32{n - 1, n}, Write: []uint32{n}}
	} else {
		e = Epoch{Read: []uint32{n}, Write: []uint32{n}}
	}
	zz.Assert(e.Validate() == nil, "C35/short-form-valid")
	s := e.String()
	var back Epoch
	err := back.fromString(s)
	zz.Assert(err == nil, "C35/short-form-parses")
	if err == nil {
		zz.Assert(back.Equal(&e) && e.Equal(&back), "C35/short-form-roundtrip")
	}
	var z Epoch
	zz.Assert(z.fromString("0*") != nil, "C35/zero-star-rejected")
	zz.Reach("end")
}
