package gadget

// C38 — accepted gadget volumes lay out into disjoint structures.
//
// The volume goes through exactly the pipeline InfoFromGadgetYaml runs after YAML decoding
// (implicit values, ordering by offset, validation) and, when accepted, through
// OnDiskStructsFromGadget and LayoutVolume.  Sizes, min-sizes, offsets and image sizes are
// arbitrary 64-bit values, so wrap-around of offset+size is in scope.

import (
	"github.com/snapcore/snapd/gadget/quantity"
	zz "github.com/snapcore/snapd/zzverif"
)

func c38end(start quantity.Offset, size quantity.Size) (end uint64, wrapped bool) {
	e := uint64(start) + uint64(size)
	return e, e < uint64(start)
}

// c38u64 is a size or offset as gadget.yaml can express it: the YAML parser produces a
// non-negative int64; the harness additionally keeps values below 2^c38.bits.
func c38u64(name string) uint64 {
	v := zz.NondetU64(name)
	zz.Assume(v < uint64(1)<<uint(zz.Param("c38.bits", 62)))
	return v
}

func Harness_C38_Layout() {
	ns := zz.Param("c38.structures", 2)
	vol := &Volume{Name: "pc", Schema: "gpt", Bootloader: "grub"}
	images := map[string]quantity.Size{}
	for k := 0; k < ns; k++ {
		name := "s" + string(rune('0'+k))
		vs := VolumeStructure{Name: name, Type: "bare"}
		if k == 0 && zz.NondetBool("first-is-mbr") {
			vs.Type = "mbr"
			vs.Role = "mbr"
		}
		vs.Size = quantity.Size(c38u64(name + ".size"))
		if zz.NondetBool(name + ".has-min-size") {
			vs.MinSize = quantity.Size(c38u64(name + ".min-size"))
		}
		if zz.NondetBool(name + ".has-offset") {
			off := quantity.Offset(c38u64(name + ".offset"))
			vs.Offset = &off
		}
		nimg := 0
		if k == ns-1 {
			nimg = zz.NondetRange(name+".images", 0, zz.Param("c38.images", 2))
		}
		for j := 0; j < nimg; j++ {
			img := name + "-img" + string(rune('0'+j))
			vc := VolumeContent{Image: img}
			if zz.NondetBool(img + ".has-offset") {
				off := quantity.Offset(c38u64(img + ".offset"))
				vc.Offset = &off
			}
			images["/g/"+img] = quantity.Size(c38u64(img + ".filesize"))
			vs.Content = append(vs.Content, vc)
		}
		vol.Structure = append(vol.Structure, vs)
	}
	zz.Stub("github.com/snapcore/snapd/gadget.getImageSize", func(path string) (quantity.Size, error) {
		return images[path], nil
	})

	if err := setImplicitForVolume(vol, nil); err != nil {
		return
	}
	vol.Structure = orderStructuresByOffset(vol.Structure)
	if err := validateVolume(vol); err != nil {
		zz.Reach("rejected-validation")
		return
	}
	zz.Reach("accepted")

	// start-offset bounds are consistent for a valid volume
	for idx := range vol.Structure {
		min := minStructureOffset(vol.Structure, idx)
		max := maxStructureOffset(vol.Structure, idx)
		zz.Assert(min <= max, "C38/min-offset-not-above-max-offset")
	}

	lv, err := LayoutVolume(vol, OnDiskStructsFromGadget(vol), &LayoutOptions{SkipResolveContent: true, GadgetRootDir: "/g"})
	if err != nil {
		zz.Reach("layout-refused")
		return
	}
	los := lv.LaidOutStructure
	zz.Assert(len(los) == len(vol.Structure), "C38/every-structure-laid-out")
	for k := range los {
		s := &los[k]
		end, wrapped := c38end(s.StartOffset, s.Size)
		zz.Assert(!wrapped, "C38/structure-end-does-not-wrap")
		if k+1 < len(los) {
			zz.Assert(zz.And(s.StartOffset <= los[k+1].StartOffset, end <= uint64(los[k+1].StartOffset)), "C38/structures-ordered-and-disjoint")
		}
		if s.Role() == "mbr" {
			zz.Assert(s.StartOffset == 0, "C38/mbr-at-zero")
		}
		zz.Assert(CheckValidStartOffset(s.StartOffset, vol.Structure, k) == nil, "C38/start-offset-in-valid-interval")
		for _, c := range s.LaidOutContent {
			cend, cwrapped := c38end(c.StartOffset, c.Size)
			zz.Assert(zz.And(zz.Not(cwrapped), zz.And(c.StartOffset >= s.StartOffset, cend <= end)), "C38/content-inside-its-structure")
		}
		for a := 0; a+1 < len(s.LaidOutContent); a++ {
			ae, _ := c38end(s.LaidOutContent[a].StartOffset, s.LaidOutContent[a].Size)
			zz.Assert(ae <= uint64(s.LaidOutContent[a+1].StartOffset), "C38/contents-disjoint")
		}
	}
	zz.Reach("end")
}
