package boot

// C17 (UC20 base snap protocol) — base updates can always fall back to the last known-good revision.
//
// The modeenv lives in memory (ReadModeenv/Write replaced); the real bootState20Base.setNext,
// markSuccessful, bootStateUpdate20.commit and the initramfs-side selectAndCommitSnapInitramfsMount
// run on it.  The solver picks a sequence of events — snapd sets a base to try, the device
// reboots (initramfs selects the base to mount), snapd marks the boot successful — and, at every
// modeenv write, whether power is lost before the write reaches the disk.

import (
	"errors"

	"github.com/snapcore/snapd/snap"
	zz "github.com/snapcore/snapd/zzverif"
)

type c17world struct {
	disk    *Modeenv // what is on disk
	crashed bool     // power was lost during the current boot: nothing more happens until the reboot
}

func c17copy(m *Modeenv) *Modeenv {
	c, err := m.Copy()
	if err != nil {
		panic(err)
	}
	c.read = true
	return c
}

func Harness_C17_Base() {
	w := &c17world{disk: &Modeenv{Mode: "run", Base: "core20_1.snap", read: true}}
	crashName := ""
	zz.Stub("(*github.com/snapcore/snapd/boot.Modeenv).Write", func(m *Modeenv) error {
		if zz.NondetBool("power-lost-before-write." + crashName) {
			w.crashed = true
			return errors.New("power lost")
		}
		w.disk = c17copy(m)
		return nil
	})
	zz.Stub("github.com/snapcore/snapd/boot.loadModeenv", func() (*Modeenv, error) { return c17copy(w.disk), nil })
	zz.Stub("github.com/snapcore/snapd/osutil.FileExists", func(path string) bool { return true })
	// (no sealed keys on this device: resealing is a no-op)
	resealKeyToModeenv = func(rootdir string, modeenv *Modeenv, expectReseal bool, unlocker Unlocker) error { return nil }
	modeenvLock()
	bs := &bootState20Base{}

	knownGood := "core20_1.snap" // the last revision that booted and was marked successful
	mounted := "core20_1.snap"   // the base the running system uses
	trialBoot := false           // the current boot is the trial of try_base
	revs := []string{"core20_2.snap", "core20_3.snap", "core20_1.snap"}
	steps := zz.Param("c17.steps", 4)
	for step := 0; step < steps; step++ {
		sn := string(rune('a' + step))
		crashName = sn
		ev := zz.NondetRange("event."+sn, 0, 2)
		if w.crashed {
			ev = 1 // after a power loss the only thing that happens is the next boot
		}
		switch ev {
		case 0: // snapd sets the next base
			next, err := snap.ParsePlaceInfoFromSnapFileName(revs[zz.NondetRange("next."+sn, 0, len(revs)-1)])
			if err != nil {
				panic(err)
			}
			_, u, err := bs.setNext(next, NextBootContext{})
			zz.Assert(err == nil, "C17/set-next-accepted")
			if err == nil {
				u.commit()
			}
			zz.Assert(w.disk.Base == knownGood, "C17/setting-next-never-changes-the-known-good-base")
		case 1: // reboot: the initramfs selects the base
			w.crashed = false
			wasTrying := w.disk.BaseStatus == TryingStatus
			tryBase := w.disk.TryBase
			m := c17copy(w.disk)
			first, err := bs.selectAndCommitSnapInitramfsMount(m, "/run/mnt/data")
			if w.crashed {
				// power lost inside the initramfs: boot again
				continue
			}
			zz.Assert(err == nil && first != nil, "C17/boot-never-stops-for-lack-of-a-base")
			if err != nil || first == nil {
				return
			}
			mounted = first.Filename()
			zz.Assert(mounted == knownGood || mounted == tryBase, "C17/boots-known-good-or-the-single-tried-revision")
			if wasTrying {
				// the previous boot tried try_base and was not marked successful: back to the known-good one
				zz.Assert(mounted == knownGood, "C17/failed-trial-falls-back-to-known-good")
			}
			trialBoot = mounted != knownGood
			zz.Assert(w.disk.Base == knownGood, "C17/booting-never-changes-the-known-good-base")
		case 2: // snapd marks the boot successful
			u, err := newBootStateUpdate20(c17copy(w.disk))
			if err != nil {
				panic(err)
			}
			u2, err := bs.markSuccessful(u)
			zz.Assert(err == nil, "C17/mark-successful-accepted")
			if err == nil {
				u2.commit()
			}
			if !w.crashed {
				// a revision becomes known-good only if it is the one that booted
				zz.Assert(w.disk.Base == knownGood || w.disk.Base == mounted, "C17/new-known-good-is-the-base-that-actually-booted")
				if mounted == knownGood {
					zz.Assert(w.disk.Base == knownGood, "C17/untried-revision-never-becomes-known-good")
				}
				zz.Assert(w.disk.BaseStatus == DefaultStatus && w.disk.TryBase == "", "C17/trial-state-cleared-after-success")
			} else {
				zz.Assert(w.disk.Base == knownGood, "C17/interrupted-mark-leaves-known-good")
			}
			knownGood = w.disk.Base
			_ = trialBoot
		}
		zz.Assert(w.disk.Base != "", "C17/a-known-good-base-is-always-recorded")
	}
	zz.Reach("end")
}
