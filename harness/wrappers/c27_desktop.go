package wrappers

// C27 — generated desktop files cannot launch anything but the snap's own apps.

import (
	"strings"

	"github.com/snapcore/snapd/dirs"
	"github.com/snapcore/snapd/snap"
	zz "github.com/snapcore/snapd/zzverif"
)

const c27file = "/var/lib/snapd/desktop/applications/foo_launcher.desktop"

func c27snap() *snap.Info {
	dirs.SnapBinariesDir = "/snap/bin"
	dirs.SnapMountDir = "/snap"
	info := &snap.Info{SuggestedName: "foo"}
	info.Revision = snap.R(12)
	if zz.Param("c27.instance", 0) == 1 {
		info.InstanceKey = "inst"
	}
	info.Apps = map[string]*snap.AppInfo{
		"app":  {Snap: info, Name: "app"},
		"app2": {Snap: info, Name: "app2"},
	}
	return info
}

func c27tail(name string, max int) string {
	n := zz.NondetRange(name+".len", 0, max)
	s := zz.NondetString(name, n)
	for i := 0; i < n; i++ {
		zz.Assume(zz.And(s[i] < 0x80, s[i] != '\n'))
	}
	return s
}

// c27execOK: an Exec line that launches one of the snap's own wrappers (and nothing else)
func c27execOK(info *snap.Info, line string) bool {
	ok := false
	for _, app := range info.Apps {
		want := "Exec=env BAMF_DESKTOP_FILE_HINT=" + c27file + " " + app.WrapperPath()
		ok = zz.Or(ok, zz.Or(zz.StrEq(line, want), strings.HasPrefix(line, want+" ")))
	}
	return ok
}

func Harness_C27_Exec() {
	info := c27snap()
	// the command starts with a prefix of a valid command name, or is arbitrary
	prefixes := []string{"", "foo.app", "foo.app2", "foo_inst.app", "foo.ap"}
	prefix := prefixes[zz.NondetRange("prefix", 0, len(prefixes)-1)]
	tail := c27tail("tail", zz.Param("c27.tail", 3))
	line := "Exec=" + prefix + tail
	out, err := rewriteExecLine(info, c27file, line)
	if err != nil {
		zz.Reach("rejected")
		return
	}
	zz.Assert(c27execOK(info, out), "C27/exec-launches-only-own-wrapper")
	// the wrapper lives in the snap binaries directory and carries the instance name
	zz.Assert(strings.HasPrefix(out, "Exec=env BAMF_DESKTOP_FILE_HINT="+c27file+" /snap/bin/"+info.InstanceName()+"."), "C27/exec-wrapper-of-this-instance")
	zz.Reach("end")
}

func Harness_C27_Icon() {
	info := c27snap()
	prefixes := []string{"", "${SNAP}", "${SNAP}/", "snap.foo.", "snap."}
	prefix := prefixes[zz.NondetRange("prefix", 0, len(prefixes)-1)]
	tail := c27tail("tail", zz.Param("c27.tail", 3))
	value := prefix + tail
	out, err := rewriteIconLine(info, "Icon="+value)
	if err != nil {
		zz.Reach("rejected")
		return
	}
	if strings.Contains(value, "/") {
		// a path: inside the snap, canonical (so no way out through "..")
		zz.Assert(strings.HasPrefix(value, "${SNAP}/"), "C27/icon-path-inside-snap")
		zz.Assert(!strings.Contains(value, "/../") && !strings.HasSuffix(value, "/..") && !strings.Contains(value, "//"), "C27/icon-path-canonical")
		zz.Assert(out == "Icon="+value, "C27/icon-path-unchanged")
		zz.Reach("path")
	} else if strings.HasPrefix(value, "snap.") {
		zz.Assert(strings.HasPrefix(value, "snap.foo.") && strings.HasPrefix(out, "Icon=snap."+info.InstanceName()+"."), "C27/icon-theme-name-of-this-snap")
	} else {
		zz.Assert(out == "Icon="+value, "C27/plain-icon-unchanged")
	}
	zz.Reach("end")
}

func c27trimLeft(s string) string {
	for len(s) > 0 && (s[0] == ' ' || s[0] == '\t' || s[0] == '\r' || s[0] == '\v' || s[0] == '\f') {
		s = s[1:]
	}
	return s
}

// the whole file: every line that survives is on the allow-list, and every Exec/Icon line
// (even an indented one) went through the rewriting
func Harness_C27_File() {
	info := c27snap()
	heads := []string{"Exec=", "Exec=foo.app", " Exec=", "\tExec=/bin/sh", "Icon=", "[Desktop Entry]", "X-Evil=", "Name=", "TryExec="}
	var content string
	nl := zz.NondetRange("lines", 1, zz.Param("c27.lines", 2))
	for k := 0; k < nl; k++ {
		name := "line" + string(rune('0'+k))
		content += heads[zz.NondetRange(name+".head", 0, len(heads)-1)] + c27tail(name, zz.Param("c27.filetail", 2)) + "\n"
	}
	out := string(sanitizeDesktopFile(info, c27file, []byte(content)))
	lines := strings.Split(out, "\n")
	for k, l := range lines {
		if l == "" {
			continue
		}
		if strings.HasPrefix(l, "X-SnapInstanceName=") {
			zz.Assert(l == "X-SnapInstanceName="+info.InstanceName() && k > 0 && lines[k-1] == "[Desktop Entry]", "C27/instance-tag-follows-header")
			continue
		}
		zz.Assert(isValidDesktopFileLine([]byte(l)), "C27/output-line-on-allow-list")
		t := c27trimLeft(l)
		if strings.HasPrefix(t, "Exec=") {
			zz.Assert(c27execOK(info, l), "C27/file-exec-launches-only-own-wrapper")
		}
		zz.Assert(!strings.HasPrefix(t, "TryExec="), "C27/tryexec-never-emitted")
		if l == "[Desktop Entry]" {
			zz.Assert(k+1 < len(lines) && lines[k+1] == "X-SnapInstanceName="+info.InstanceName(), "C27/header-is-tagged")
		}
	}
	zz.Reach("end")
}
