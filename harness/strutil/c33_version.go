package strutil

// C33 — version comparison is a consistent Debian-style ordering.
// Harnesses for the symbolic engine (see /verif/DESIGN.md §3 C33).

import (
	zz "github.com/snapcore/snapd/zzverif"
)

func c33sign(x int) int {
	switch {
	case x < 0:
		return -1
	case x > 0:
		return 1
	}
	return 0
}

// version alphabet of the property: digits, letters, '.', '+', '~', '-', ':'
func c33alpha(s string) bool {
	ok := true
	for i := 0; i < len(s); i++ {
		c := s[i]
		in := zz.Or(zz.And(c >= '0', c <= '9'), zz.Or(zz.And(c >= 'a', c <= 'z'), zz.And(c >= 'A', c <= 'Z')))
		in = zz.Or(in, zz.Or(zz.Or(c == '.', c == '+'), zz.Or(zz.Or(c == '~', c == '-'), c == ':')))
		ok = zz.And(ok, in)
	}
	return ok
}

// c33valid is Debian policy validity as enforced by dpkg's parser for an epoch-less
// version: non-empty upstream part starting with a digit, no ':' at all, and a
// non-empty revision when a '-' is present.
func c33valid(s string) bool {
	if len(s) == 0 {
		return false
	}
	ok := zz.And(c33alpha(s), zz.And(s[0] >= '0', s[0] <= '9'))
	for i := 0; i < len(s); i++ {
		ok = zz.And(ok, s[i] != ':')
	}
	ok = zz.And(ok, s[len(s)-1] != '-')
	return ok
}

func c33isdigit(c byte) bool { return c >= '0' && c <= '9' }
func c33isalpha(c byte) bool { return (c >= 'a' && c <= 'z') || (c >= 'A' && c <= 'Z') }

// dpkg lib/dpkg/version.c: order()
func c33order(c byte) int {
	switch {
	case c33isdigit(c):
		return 0
	case c33isalpha(c):
		return int(c)
	case c == '~':
		return -1
	case c != 0:
		return int(c) + 256
	}
	return 0
}

func c33at(s string, i int) byte {
	if i < len(s) {
		return s[i]
	}
	return 0
}

// dpkg lib/dpkg/version.c: verrevcmp(), transcribed with indices instead of pointers.
func c33verrevcmp(a, b string) int {
	i, j := 0, 0
	for c33at(a, i) != 0 || c33at(b, j) != 0 {
		firstDiff := 0
		for (c33at(a, i) != 0 && !c33isdigit(c33at(a, i))) || (c33at(b, j) != 0 && !c33isdigit(c33at(b, j))) {
			ac := c33order(c33at(a, i))
			bc := c33order(c33at(b, j))
			if ac != bc {
				return ac - bc
			}
			i++
			j++
		}
		for c33at(a, i) == '0' {
			i++
		}
		for c33at(b, j) == '0' {
			j++
		}
		for c33isdigit(c33at(a, i)) && c33isdigit(c33at(b, j)) {
			if firstDiff == 0 {
				firstDiff = int(c33at(a, i)) - int(c33at(b, j))
			}
			i++
			j++
		}
		if c33isdigit(c33at(a, i)) {
			return 1
		}
		if c33isdigit(c33at(b, j)) {
			return -1
		}
		if firstDiff != 0 {
			return firstDiff
		}
	}
	return 0
}

func c33lastDash(s string) int {
	for i := len(s) - 1; i >= 0; i-- {
		if s[i] == '-' {
			return i
		}
	}
	return -1
}

// dpkg_version_compare for epoch-less versions: version part, then revision (after the last '-').
func c33debian(a, b string) int {
	av, ar := a, ""
	if i := c33lastDash(a); i >= 0 {
		av, ar = a[:i], a[i+1:]
	}
	bv, br := b, ""
	if i := c33lastDash(b); i >= 0 {
		bv, br = b[:i], b[i+1:]
	}
	if r := c33verrevcmp(av, bv); r != 0 {
		return r
	}
	return c33verrevcmp(ar, br)
}

func c33str(name string, max int) string {
	n := zz.NondetRange(name+".len", 0, max)
	return zz.NondetString(name, n)
}

// every byte value: reflexive, antisymmetric, range, error symmetry
func Harness_C33_Axioms2() {
	max := zz.Param("c33.pairlen", 3)
	a := c33str("a", max)
	b := c33str("b", max)
	rab, eab := VersionCompare(a, b)
	rba, eba := VersionCompare(b, a)
	zz.Assert((eab == nil) == (eba == nil), "C33/error-symmetric")
	raa, eaa := VersionCompare(a, a)
	if eaa == nil {
		zz.Assert(raa == 0, "C33/reflexive")
	}
	// epoch forms, and only those, are rejected
	zz.Assert((eaa != nil) == c33hasEpoch(a), "C33/epoch-rejected-iff")
	if eab == nil {
		zz.Assert(rab >= -1 && rab <= 1, "C33/range")
		zz.Assert(rab == -rba, "C33/antisymmetric")
		if a == b {
			zz.Assert(rab == 0, "C33/equal-strings-compare-0")
		}
	}
	zz.Reach("end")
}

func c33hasEpoch(s string) bool {
	i := 0
	for i < len(s) && c33isdigit(s[i]) {
		i++
	}
	return i > 0 && i < len(s) && s[i] == ':'
}

// transitivity on triples over the version alphabet
func Harness_C33_Transitive() {
	max := zz.Param("c33.triplelen", 2)
	a := c33str("a", max)
	b := c33str("b", max)
	c := c33str("c", max)
	zz.Assume(zz.And(c33alpha(a), zz.And(c33alpha(b), c33alpha(c))))
	rab, e1 := VersionCompare(a, b)
	rbc, e2 := VersionCompare(b, c)
	rac, e3 := VersionCompare(a, c)
	zz.Assume(e1 == nil && e2 == nil && e3 == nil)
	if rab <= 0 && rbc <= 0 {
		zz.Assert(rac <= 0, "C33/transitive-le")
		if rab < 0 || rbc < 0 {
			zz.Assert(rac < 0, "C33/transitive-lt")
		}
	}
	if rab == 0 && rbc == 0 {
		zz.Assert(rac == 0, "C33/transitive-eq")
	}
	zz.Reach("end")
}

// differential against dpkg's algorithm on epoch-less versions over the version alphabet
func Harness_C33_Debian() {
	max := zz.Param("c33.pairlen", 3)
	a := c33str("a", max)
	b := c33str("b", max)
	zz.Assume(c33valid(a))
	zz.Assume(c33valid(b))
	r, err := VersionCompare(a, b)
	zz.Assert(err == nil, "C33/epochless-accepted")
	if err == nil {
		zz.Assert(r == c33sign(c33debian(a, b)), "C33/debian-diff")
	}
	zz.Reach("end")
}
