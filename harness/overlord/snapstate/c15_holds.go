package snapstate

// C15 — snap-initiated refresh holds are bounded.
//
// Inductive step over the hold table: an arbitrary hold record (any first-held and
// hold-until instants satisfying the bounds), an arbitrary clock, one HoldRefresh
// request by another snap, by a parallel instance of the held snap, by the snap itself
// or by the system, with the default (maximal) or an explicit duration.

import (
	"time"

	"github.com/snapcore/snapd/overlord/state"
	zz "github.com/snapcore/snapd/zzverif"
)

const (
	c15other = 48 * time.Hour
	c15self  = 90 * 24 * time.Hour
	c15hard  = 95 * 24 * time.Hour
)

func c15time(name string) time.Time {
	sec := zz.NondetI64(name + ".sec")
	zz.Assume(zz.And(sec >= 1000000000, sec < 4000000000))
	if zz.Param("c15.nanos", 0) == 0 {
		// whole seconds: the bounds of the property (48h, 90 and 95 days) do not depend on sub-second parts
		return time.Unix(sec, 0).UTC()
	}
	nsec := int64(zz.NondetU32(name+".nsec") & 0x3fffffff)
	zz.Assume(nsec < 1000000000)
	return time.Unix(sec, nsec).UTC()
}

// le: a <= b
func c15le(a, b time.Time) bool { return zz.Not(b.Before(a)) }

func c15holders() []string { return []string{"other-snap", "held-snap_foo", "held-snap", "system"} }

func c15maxFor(holder string) time.Duration {
	if holder == "held-snap" {
		return c15self
	}
	return c15other
}

func Harness_C15_HoldRefresh() {
	st := state.New(nil)
	st.Lock()
	defer st.Unlock()
	now := c15time("now")
	timeNow = func() time.Time { return now }
	lastRefresh := c15time("lastRefresh")
	zz.Assume(c15le(lastRefresh, now))
	zz.Stub("github.com/snapcore/snapd/overlord/snapstate.lastRefreshed", func(st *state.State, name string) (time.Time, error) {
		return lastRefresh, nil
	})

	holders := c15holders()
	holder := holders[zz.NondetRange("holder", 0, zz.Param("c15.holders", 3))]
	// an earlier record of the same holder for the held snap (the current hold episode)
	var first, until time.Time
	existing := zz.NondetBool("existing")
	if existing {
		first = c15time("firstHeld")
		until = c15time("holdUntil")
		zz.Assume(c15le(first, now))
		if holder != "system" {
			// the bounds every accepted request establishes
			zz.Assume(c15le(until, first.Add(c15maxFor(holder))))
			zz.Assume(c15le(until, lastRefresh.Add(c15self)))
		}
		gating := map[string]map[string]*holdState{"held-snap": {holder: {FirstHeld: first, HoldUntil: until, Level: HoldAutoRefresh}}}
		st.Set("snaps-hold", gating)
	}

	var dur time.Duration
	// snaps always request the default (maximal) duration: the hook handler and snapctl pass 0;
	// only the administrator ("system") gives explicit durations
	explicit := false
	if holder == "system" {
		explicit = zz.NondetBool("explicit-duration")
	}
	if explicit {
		// seconds*1e9 + nanoseconds: the shape the engine can divide by 1e9 again without inverting a multiplication
		ds := zz.NondetI64("duration.sec")
		dn := int64(0)
		if zz.Param("c15.nanos", 0) == 1 {
			dn = int64(zz.NondetU32("duration.nsec") & 0x3fffffff)
		}
		zz.Assume(zz.And(zz.And(ds >= 0, ds <= 200*24*3600), dn < 1000000000))
		dur = time.Duration(ds)*time.Second + time.Duration(dn)
		zz.Assume(dur > 0)
	}
	left, err := HoldRefresh(st, HoldGeneral, holder, dur, "held-snap")

	gating, gerr := refreshGating(st)
	zz.Assert(gerr == nil, "C15/hold-table-readable")
	rec := gating["held-snap"][holder]
	if err != nil {
		zz.Assert(rec == nil, "C15/refused-hold-leaves-no-record")
		zz.Assert(holder != "system", "C15/system-hold-never-refused")
		zz.Reach("refused")
		return
	}
	zz.Assert(rec != nil, "C15/accepted-hold-recorded")
	if rec == nil {
		return
	}
	zz.Assert(left > 0, "C15/accepted-hold-has-time-left")
	if existing {
		zz.Assert(rec.FirstHeld.Equal(first), "C15/first-held-not-restarted")
	} else {
		zz.Assert(rec.FirstHeld.Equal(now), "C15/first-held-is-now")
	}
	if holder == "system" {
		if explicit {
			zz.Assert(rec.HoldUntil.Equal(now.Add(dur)), "C15/system-hold-until-as-requested")
		}
		zz.Reach("system")
		return
	}
	// the bounds of the statement
	zz.Assert(c15le(rec.HoldUntil, rec.FirstHeld.Add(c15maxFor(holder))), "C15/hold-within-max-duration-of-episode")
	zz.Assert(c15le(rec.HoldUntil, lastRefresh.Add(c15self)), "C15/hold-within-90-days-of-last-refresh")
	// what the refresh logic observes later: at any later instant the snap only counts as held within the bounds
	later := c15time("later")
	zz.Assume(c15le(now, later))
	timeNow = func() time.Time { return later }
	held, herr := HeldSnaps(st, HoldAutoRefresh)
	zz.Assert(herr == nil, "C15/heldsnaps-ok")
	isHeld := false
	for _, h := range held["held-snap"] {
		if h == holder {
			isHeld = true
		}
	}
	if isHeld {
		zz.Assert(c15le(later, rec.FirstHeld.Add(c15maxFor(holder))), "C15/reported-held-only-within-episode-bound")
		zz.Assert(c15le(later, lastRefresh.Add(c15hard)), "C15/reported-held-only-within-95-days")
		zz.Reach("held-later")
	}
	zz.Reach("end")
}
