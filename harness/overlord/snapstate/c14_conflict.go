package snapstate

// C14 — no two in-progress changes ever operate on the same snap.
//
// One request checked against an arbitrary set of existing changes: change kinds, the status of
// every task and the snap each task operates on are symbolic choices; the verdict of the real
// conflict check is compared with the statement.

import (
	"time"

	"github.com/snapcore/snapd/overlord/snapstate/sequence"
	"github.com/snapcore/snapd/overlord/state"
	"github.com/snapcore/snapd/snap"
	zz "github.com/snapcore/snapd/zzverif"
)

// kinds: ordinary, excepted by design, exclusive
func c14kinds() []string {
	return []string{"install-snap", "pre-download", "remodel", "transition-ubuntu-core", "become-operational", "create-recovery-system", "transition-to-snapd-snap", "remove-recovery-system", "configure-snap"}
}

func c14exclusive(kind string) bool {
	switch kind {
	case "remodel", "transition-ubuntu-core", "transition-to-snapd-snap", "create-recovery-system", "remove-recovery-system":
		return true
	}
	return false
}

func c14excepted(kind string) bool { return kind == "pre-download" || kind == "become-operational" }

type c14world struct {
	st *state.State
	// per change: kind, whether it is ready, and the set of snaps its tasks operate on
	kinds   []string
	chgs    []*state.Change
	touches [][]string // per change, the snap each snap-task operates on (symbolic strings)
}

func c14build(st *state.State, nchg, ntask int) *c14world {
	fixed := time.Unix(1700000000, 0)
	zz.Stub("time.Now", func() time.Time { return fixed })
	w := &c14world{st: st}
	kinds := c14kinds()
	for c := 0; c < nchg; c++ {
		cn := "chg" + string(rune('0'+c))
		kind := kinds[zz.NondetRange(cn+".kind", 0, zz.Param("c14.kinds", len(kinds))-1)]
		chg := st.NewChange(kind, "...")
		var touched []string
		var tasks []*state.Task
		for k := 0; k < ntask; k++ {
			tn := cn + ".t" + string(rune('0'+k))
			var t *state.Task
			// the task names a snap through its snap-setup (an arbitrary name "s?" or "s?_k"), or none at all
			if zz.NondetBool(tn + ".has-snap") {
				sn := "s" + zz.NondetString(tn+".snap", 1)
				zz.Assume(zz.And(sn[1] >= 'a', sn[1] <= 'z'))
				key := ""
				if zz.NondetBool(tn + ".instance") {
					key = "k"
				}
				t = st.NewTask("link-snap", "...")
				t.Set("snap-setup", &SnapSetup{SideInfo: &snap.SideInfo{RealName: sn, Revision: snap.R(7)}, InstanceKey: key})
				touched = append(touched, snap.InstanceName(sn, key))
			} else {
				t = st.NewTask("run-hook", "...")
			}
			chg.AddTask(t)
			tasks = append(tasks, t)
		}
		// statuses are set once all tasks are in the change (a change is only ever populated before it runs)
		for k, t := range tasks {
			tn := cn + ".t" + string(rune('0'+k))
			s := state.Status(zz.NondetInt(tn + ".status"))
			zz.Assume(zz.And(s >= state.DoStatus, s <= state.WaitStatus))
			if s == state.WaitStatus {
				t.SetToWait(state.DoneStatus)
			} else {
				t.SetStatus(s)
			}
		}
		w.kinds = append(w.kinds, kind)
		w.chgs = append(w.chgs, chg)
		w.touches = append(w.touches, touched)
	}
	return w
}

// c14expected: must a new operation on the named snap be refused?
func (w *c14world) expected(name string) bool {
	conflict := false
	for c, chg := range w.chgs {
		if chg.Status().Ready() {
			continue
		}
		if c14exclusive(w.kinds[c]) {
			conflict = true
		}
		if !c14excepted(w.kinds[c]) {
			for _, n := range w.touches[c] {
				conflict = zz.Or(conflict, zz.StrEq(n, name))
			}
		}
	}
	return conflict
}

func c14installed(st *state.State, name string) {
	sn, key := snap.SplitInstanceName(name)
	si := &snap.SideInfo{RealName: sn, Revision: snap.R(3), SnapID: sn + "-id"}
	Set(st, name, &SnapState{
		SnapType:    "app",
		Active:      true,
		Sequence:    sequence.SnapSequence{Revisions: []*sequence.RevisionSideState{sequence.NewRevisionSideState(si, nil)}},
		Current:     snap.R(3),
		InstanceKey: key,
	})
}

// Harness_C14_Conflict: CheckChangeConflict / CheckChangeConflictMany against arbitrary existing changes.
func Harness_C14_Conflict() {
	st := state.New(nil)
	st.Lock()
	defer st.Unlock()
	w := c14build(st, zz.Param("c14.changes", 2), zz.Param("c14.tasks", 2))
	name := []string{"sa", "sa_k"}[zz.NondetRange("requested", 0, 1)]
	want := w.expected(name)
	ntasks, nchgs := len(st.Tasks()), len(st.Changes())

	err := CheckChangeConflict(st, name, nil)
	zz.Assert(zz.Or(zz.And(err != nil, want), zz.And(err == nil, zz.Not(want))), "C14/conflict-exactly-when-an-unfinished-change-operates-on-the-snap")
	if err != nil {
		_, isConflict := err.(*ChangeConflictError)
		zz.Assert(isConflict, "C14/refusal-is-a-conflict-error")
	}
	// the many-snaps form: requested snap together with one no change touches
	errMany := CheckChangeConflictMany(st, []string{"unrelated", name}, "")
	zz.Assert(zz.Or(zz.And(errMany != nil, want), zz.And(errMany == nil, zz.Not(want))), "C14/many-form-agrees")
	// ignoring one change: that change alone does not count (unless it is one of the always-exclusive transitions)
	ign := zz.NondetRange("ignored", 0, len(w.chgs)-1)
	errIgn := CheckChangeConflictMany(st, []string{name}, w.chgs[ign].ID())
	wantIgn := false
	for c, chg := range w.chgs {
		if chg.Status().Ready() {
			continue
		}
		k := w.kinds[c]
		if c == ign && k != "transition-ubuntu-core" && k != "transition-to-snapd-snap" {
			continue
		}
		if c14exclusive(k) {
			wantIgn = true
		}
		if !c14excepted(k) {
			for _, n := range w.touches[c] {
				wantIgn = zz.Or(wantIgn, zz.StrEq(n, name))
			}
		}
	}
	zz.Assert(zz.Or(zz.And(errIgn != nil, wantIgn), zz.And(errIgn == nil, zz.Not(wantIgn))), "C14/ignoring-one-change-ignores-only-that-change")
	// a new exclusive change may only start when nothing else is in progress
	anyUnready := false
	for _, chg := range w.chgs {
		if !chg.Status().Ready() {
			anyUnready = true
		}
	}
	errExcl := CheckChangeConflictRunExclusively(st, "remodel")
	zz.Assert((errExcl != nil) == anyUnready, "C14/exclusive-change-needs-quiet-system")
	zz.Assert(len(st.Tasks()) == ntasks && len(st.Changes()) == nchgs, "C14/checks-create-nothing")
	zz.Reach("end")
}

// Harness_C14_Operation: a real operation request (Disable) is refused on conflict and creates nothing.
func Harness_C14_Operation() {
	st := state.New(nil)
	st.Lock()
	defer st.Unlock()
	for _, n := range []string{"sa", "sa_k"} {
		c14installed(st, n)
	}
	w := c14build(st, zz.Param("c14.changes", 1), zz.Param("c14.tasks", 2))
	name := []string{"sa", "sa_k"}[zz.NondetRange("requested", 0, 1)]
	want := w.expected(name)
	ntasks := len(st.Tasks())
	zz.Stub("github.com/snapcore/snapd/overlord/snapstate.Info", func(st *state.State, name string, revision snap.Revision) (*snap.Info, error) {
		sn, key := snap.SplitInstanceName(name)
		return &snap.Info{SuggestedName: sn, InstanceKey: key, SnapType: snap.TypeApp, SideInfo: snap.SideInfo{RealName: sn, Revision: revision}}, nil
	})
	ts, err := Disable(st, name)
	zz.Assert(zz.Implies(want, err != nil), "C14/operation-refused-on-conflict")
	zz.Assert(zz.Implies(zz.Not(want), err == nil), "C14/operation-accepted-without-conflict")
	if err != nil {
		zz.Assert(ts == nil && len(st.Tasks()) == ntasks, "C14/refused-operation-creates-nothing")
	}
	zz.Reach("end")
}

// Harness_C14_StaleRecord: the snap record changed while the request was being prepared.
func Harness_C14_StaleRecord() {
	st := state.New(nil)
	st.Lock()
	defer st.Unlock()
	c14installed(st, "a-snap")
	var seen SnapState
	if err := Get(st, "a-snap", &seen); err != nil {
		panic(err)
	}
	// meanwhile another (already finished) change altered one aspect of the record
	var cur SnapState
	Get(st, "a-snap", &cur)
	changed := true
	switch zz.NondetRange("aspect", 0, 9) {
	case 0:
		changed = false
	case 1:
		cur.Active = false
	case 2:
		cur.Current = snap.R(4)
	case 3:
		cur.Sequence.Revisions = append(cur.Sequence.Revisions, sequence.NewRevisionSideState(&snap.SideInfo{RealName: "a-snap", Revision: snap.R(4)}, nil))
	case 4:
		cur.TrackingChannel = "latest/edge"
	case 5:
		cur.Flags.DevMode = true
	case 6:
		cur.Aliases = map[string]*AliasTarget{"al": {Auto: "cmd"}}
	case 7:
		cur.AutoAliasesDisabled = true
	case 8:
		t0 := time.Unix(1700000000, 0)
		cur.RefreshInhibitedTime = &t0
	case 9:
		cur.CohortKey = "cohort"
	}
	Set(st, "a-snap", &cur)
	err := CheckChangeConflict(st, "a-snap", &seen)
	zz.Assert((err != nil) == changed, "C14/stale-snap-record-is-refused")
	zz.Reach("end")
}
