package config

// C29 — config transactions are isolated, read their own writes, never lose updates.
//
// Two transactions on one state, two snaps, three leaf options per snap (two nested under one map
// option, one top-level).  A short history of set / unset (null) / commit operations is chosen by
// the solver, with symbolic values; after every operation every transaction's view of every option
// is compared with a reference model written from the statement.  Writing through a committed
// scalar is refused and changes nothing; per-revision snapshots restore exactly what was saved.

import (
	"github.com/snapcore/snapd/overlord/state"
	"github.com/snapcore/snapd/snap"
	zz "github.com/snapcore/snapd/zzverif"
)

func c29snaps() []string  { return []string{"snap-a", "snap-b"} }
func c29leaves() []string { return []string{"a.x", "a.y", "b"} }

type c29opt struct {
	set bool // written (in a transaction) / present (in committed config)
	nul bool // written as null
	val int
}

type c29view map[string]map[string]c29opt // snap -> leaf -> option

func c29newView() c29view {
	v := c29view{}
	for _, s := range c29snaps() {
		v[s] = map[string]c29opt{}
	}
	return v
}

func (v c29view) copy() c29view {
	out := c29newView()
	for s, m := range v {
		for k, o := range m {
			out[s][k] = o
		}
	}
	return out
}

type c29tx struct {
	tr       *Transaction
	pristine c29view // committed configuration as the transaction saw it last
	writes   c29view
}

// expected value of a leaf as seen by the transaction
func (t *c29tx) expect(snapName, leaf string) (present bool, val int) {
	if w := t.writes[snapName][leaf]; w.set {
		if w.nul {
			return false, 0
		}
		return true, w.val
	}
	o := t.pristine[snapName][leaf]
	return o.set, o.val
}

func c29check(txs []*c29tx, label string) {
	for _, t := range txs {
		for _, s := range c29snaps() {
			for _, leaf := range c29leaves() {
				var got int
				err := t.tr.Get(s, leaf, &got)
				present, val := t.expect(s, leaf)
				if present {
					zz.Assert(err == nil, label+"/option-visible")
					if err == nil {
						zz.Assert(got == val, label+"/option-value")
					}
				} else {
					zz.Assert(err != nil && IsNoOption(err), label+"/option-absent")
				}
			}
		}
	}
}

func c29stubs() {
	// (external configuration is not registered; the reflection-based guard for it is bypassed)
	zz.Stub("github.com/snapcore/snapd/overlord/configstate/config.shadowsExternalConfig", func(instanceName string, key string, value interface{}) error { return nil })
}

// c29initial commits some configuration beforehand: presence of three of the options is symbolic.
func c29initial(st *state.State) c29view {
	committed := c29newView()
	seed := NewTransaction(st)
	for _, o := range [][2]string{{"snap-a", "a.x"}, {"snap-a", "b"}, {"snap-b", "b"}} {
		if zz.NondetBool("initial." + o[0] + "." + o[1]) {
			v := zz.NondetInt("initial.value." + o[0] + "." + o[1])
			if err := seed.Set(o[0], o[1], v); err != nil {
				panic(err)
			}
			committed[o[0]][o[1]] = c29opt{set: true, val: v}
		}
	}
	seed.Commit()
	return committed
}

func (t *c29tx) write(name string) {
	s := c29snaps()[zz.NondetRange(name+".snap", 0, 1)]
	leaf := c29leaves()[zz.NondetRange(name+".option", 0, 2)]
	if zz.NondetBool(name + ".null") {
		zz.Assert(t.tr.Set(s, leaf, nil) == nil, "C29/unset-accepted")
		t.writes[s][leaf] = c29opt{set: true, nul: true}
	} else {
		v := zz.NondetInt(name + ".value")
		zz.Assert(t.tr.Set(s, leaf, v) == nil, "C29/set-accepted")
		t.writes[s][leaf] = c29opt{set: true, val: v}
	}
}

// commit: only the written options are merged into the latest committed configuration
func (t *c29tx) commit(committed c29view) {
	t.tr.Commit()
	anyWrite := false
	for s, m := range t.writes {
		for leaf, w := range m {
			if !w.set {
				continue
			}
			anyWrite = true
			if w.nul {
				delete(committed[s], leaf)
			} else {
				committed[s][leaf] = c29opt{set: true, val: w.val}
			}
		}
	}
	if anyWrite {
		// the transaction now observes the result of the commit
		t.pristine = committed.copy()
	}
	t.writes = c29newView()
}

// Harness_C29_Transactions: two transactions opened on the same committed configuration, each
// writing (or unsetting) options of either snap, committing in either order or not at all.
func Harness_C29_Transactions() {
	c29stubs()
	st := state.New(nil)
	st.Lock()
	defer st.Unlock()
	committed := c29initial(st)
	t1 := &c29tx{tr: NewTransaction(st), pristine: committed.copy(), writes: c29newView()}
	t2 := &c29tx{tr: NewTransaction(st), pristine: committed.copy(), writes: c29newView()}
	txs := []*c29tx{t1, t2}
	c29check(txs, "C29/start")
	nw := zz.Param("c29.writes", 1)
	for k := 0; k < nw; k++ {
		t1.write("t1.w" + string(rune('0'+k)))
		c29check(txs, "C29/after-write")
		t2.write("t2.w" + string(rune('0'+k)))
		c29check(txs, "C29/after-write")
	}
	switch zz.NondetRange("commit-order", 0, 4) {
	case 0:
		t1.commit(committed)
		c29check(txs, "C29/after-commit")
		t2.commit(committed)
	case 1:
		t2.commit(committed)
		c29check(txs, "C29/after-commit")
		t1.commit(committed)
	case 2:
		t1.commit(committed)
	case 3:
		t2.commit(committed)
	}
	c29check(txs, "C29/after-commit")
	// what a newcomer sees is the committed configuration
	fresh := &c29tx{tr: NewTransaction(st), pristine: committed.copy(), writes: c29newView()}
	c29check([]*c29tx{fresh}, "C29/committed")
	zz.Reach("end")
}

// Harness_C29_WriteThrough: writing below an option that is committed as a scalar is refused and
// changes nothing, whatever else the transaction wrote before.
func Harness_C29_WriteThrough() {
	c29stubs()
	st := state.New(nil)
	st.Lock()
	defer st.Unlock()
	committed := c29newView()
	seed := NewTransaction(st)
	v0 := zz.NondetInt("committed.value")
	top := zz.NondetBool("scalar-at-top-level")
	scalar := "a.x"
	if top {
		scalar = "b"
	}
	seed.Set("snap-a", scalar, v0)
	committed["snap-a"][scalar] = c29opt{set: true, val: v0}
	seed.Commit()
	t := &c29tx{tr: NewTransaction(st), pristine: committed.copy(), writes: c29newView()}
	if zz.NondetBool("sibling-write-first") {
		// an earlier write elsewhere under the same top-level option
		sib := "a.y"
		v := zz.NondetInt("sibling.value")
		zz.Assert(t.tr.Set("snap-a", sib, v) == nil, "C29/set-accepted")
		t.writes["snap-a"][sib] = c29opt{set: true, val: v}
	}
	err := t.tr.Set("snap-a", scalar+".z", zz.NondetInt("through.value"))
	zz.Assert(err != nil, "C29/write-through-committed-scalar-refused")
	c29check([]*c29tx{t}, "C29/after-refused-write")
	t.commit(committed)
	fresh := &c29tx{tr: NewTransaction(st), pristine: committed.copy(), writes: c29newView()}
	c29check([]*c29tx{fresh}, "C29/committed")
	zz.Reach("end")
}

// Harness_C29_Revisions: per-revision snapshots restore exactly what was saved.
func Harness_C29_Revisions() {
	c29stubs()
	st := state.New(nil)
	st.Lock()
	defer st.Unlock()
	set := func(vals c29view, tag string) {
		tr := NewTransaction(st)
		for _, leaf := range c29leaves() {
			if zz.NondetBool(tag + "." + leaf) {
				v := zz.NondetInt(tag + ".value." + leaf)
				tr.Set("snap-a", leaf, v)
				vals["snap-a"][leaf] = c29opt{set: true, val: v}
			} else {
				tr.Set("snap-a", leaf, nil)
				delete(vals["snap-a"], leaf)
			}
		}
		tr.Commit()
	}
	saved := c29newView()
	set(saved, "rev1")
	zz.Assert(SaveRevisionConfig(st, "snap-a", snap.R(1)) == nil, "C29/revision-saved")
	later := saved.copy()
	set(later, "rev2")
	if zz.NondetBool("save-second") {
		zz.Assert(SaveRevisionConfig(st, "snap-a", snap.R(2)) == nil, "C29/second-revision-saved")
	}
	if zz.NondetBool("discard-second") {
		zz.Assert(DiscardRevisionConfig(st, "snap-a", snap.R(2)) == nil, "C29/revision-discarded")
	}
	zz.Assert(RestoreRevisionConfig(st, "snap-a", snap.R(1)) == nil, "C29/revision-restored")
	fresh := &c29tx{tr: NewTransaction(st), pristine: saved, writes: c29newView()}
	for _, leaf := range c29leaves() {
		var got int
		err := fresh.tr.Get("snap-a", leaf, &got)
		if o := saved["snap-a"][leaf]; o.set {
			zz.Assert(err == nil && got == o.val, "C29/restored-option-as-saved")
		} else {
			zz.Assert(err != nil, "C29/option-absent-when-saved-stays-absent")
		}
	}
	zz.Reach("end")
}
