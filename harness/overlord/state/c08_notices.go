package state

// C08 — notices are delivered exactly once to polling clients, only to their owner.
//
// Inductive step over the cursor protocol: an arbitrary notice table that satisfies
// the representation invariant (no notice was last repeated after lastNoticeTimestamp),
// an arbitrary client cursor that is not after lastNoticeTimestamp, one AddNotice with
// an arbitrary clock reading (same tick or earlier than lastNoticeTimestamp included).

import (
	"time"

	zz "github.com/snapcore/snapd/zzverif"
)

func c08time(name string) time.Time {
	sec := zz.NondetI64(name + ".sec")
	nsec := int64(zz.NondetU32(name+".nsec") & 0x3fffffff)
	zz.Assume(zz.And(zz.And(sec >= 1000000000, sec < 4000000000), nsec < 1000000000))
	return time.Unix(sec, nsec).UTC()
}

type c08pre struct {
	n      *Notice
	lr, lo time.Time
	occ    int
}

func c08uid(name string) *uint32 {
	switch zz.NondetRange(name, 0, 2) {
	case 0:
		return nil
	case 1:
		u := uint32(1000)
		return &u
	}
	u := uint32(1001)
	return &u
}

func c08setup(st *State, m int) ([]*c08pre, time.Time) {
	L := c08time("L")
	st.lastNoticeTimestamp = L
	var pre []*c08pre
	for j := 0; j < m; j++ {
		name := "n" + string(rune('0'+j))
		lr := c08time(name + ".lastRepeated")
		lo := c08time(name + ".lastOccurred")
		// representation invariant, established by every AddNotice without an explicit time
		zz.Assume(zz.Not(lr.After(L)))
		zz.Assume(zz.And(zz.Not(lo.Before(lr)), zz.Not(lo.After(L))))
		uid := c08uid(name + ".user")
		n := &Notice{id: string(rune('1' + j)), userID: uid, noticeType: WarningNotice, key: "k" + string(rune('0'+j)),
			firstOccurred: lr, lastRepeated: lr, lastOccurred: lo, occurrences: 1 + zz.NondetRange(name+".occ", 0, 1),
			expireAfter: defaultNoticeExpireAfter}
		u, has := flattenUserID(uid)
		st.notices[noticeKey{has, u, WarningNotice, n.key}] = n
		st.lastNoticeId = j + 1
		pre = append(pre, &c08pre{n: n, lr: lr, lo: lo, occ: n.occurrences})
	}
	return pre, L
}

func c08contains(l []*Notice, n *Notice) bool {
	for _, x := range l {
		if x == n {
			return true
		}
	}
	return false
}

func Harness_C08_AddNotice() {
	st := New(nil)
	st.Lock()
	defer st.Unlock()
	m := zz.Param("c08.notices", 2)
	pre, L := c08setup(st, m)
	cursor := c08time("cursor")
	zz.Assume(zz.Not(cursor.After(L)))

	now := c08time("now")
	timeNow = func() time.Time { return now }
	// queries happen within the expiry period of every notice (expiry itself is C09's business)
	qnow := c08time("querytime")
	zz.Stub("time.Now", func() time.Time { return qnow })
	for _, p := range pre {
		zz.Assume(zz.Not(p.lo.Add(defaultNoticeExpireAfter).Before(qnow)))
	}
	zz.Assume(zz.Not(qnow.Before(now)))
	zz.Assume(zz.Not(L.Add(24 * time.Hour).Before(qnow)))

	// the occurrence: an existing (user,type,key) or a new one
	which := zz.NondetRange("target", 0, m)
	var uid *uint32
	key := "new"
	var old *c08pre
	if which < m {
		old = pre[which]
		uid = old.n.userID
		key = old.n.key
	} else {
		uid = c08uid("new.user")
	}
	repeatAfter := []time.Duration{0, time.Hour}[zz.NondetRange("repeatAfter", 0, 1)]
	signals := zz.Counter("cond.signals")
	id, err := st.AddNotice(uid, WarningNotice, key, &AddNoticeOptions{RepeatAfter: repeatAfter})
	zz.Assert(err == nil, "C08/add-succeeds")
	signalled := zz.Counter("cond.signals") - signals
	n := st.Notice(id)
	zz.Assert(n != nil, "C08/added-notice-exists")
	if n == nil {
		return
	}
	newL := st.lastNoticeTimestamp
	zz.Assert(newL.After(L), "C08/timestamp-strictly-increases")
	zz.Assert(n.lastOccurred.Equal(newL), "C08/last-occurred-is-now")

	repeated := true
	if old != nil {
		zz.Assert(n == old.n, "C08/same-notice-updated")
		zz.Assert(n.occurrences == old.occ+1, "C08/occurrence-counted")
		// reference from the documentation of lastRepeated / RepeatAfter
		want := repeatAfter == 0
		if !want {
			want = newL.After(old.lr.Add(repeatAfter))
		}
		repeated = !n.lastRepeated.Equal(old.lr)
		zz.Assert(repeated == want, "C08/repeats-iff-window-elapsed")
		zz.Assert(zz.Implies(zz.Not(want), n.lastRepeated.Equal(old.lr)), "C08/no-repeat-inside-window")
	} else {
		zz.Assert(n.occurrences == 1 && n.firstOccurred.Equal(newL), "C08/new-notice-fields")
	}
	zz.Assert(zz.Implies(repeated, zz.And(n.lastRepeated.Equal(newL), n.lastRepeated.After(cursor))), "C08/repeat-is-after-every-cursor")
	zz.Assert(zz.Or(zz.And(repeated, signalled == 1), zz.And(zz.Not(repeated), signalled == 0)), "C08/waiters-woken-iff-new-or-repeated")
	// everything else untouched, invariant preserved
	for _, p := range pre {
		if p != old {
			zz.Assert(zz.And(p.n.lastRepeated.Equal(p.lr), zz.And(p.n.lastOccurred.Equal(p.lo), p.n.occurrences == p.occ)), "C08/other-notices-untouched")
		}
		zz.Assert(zz.Not(p.n.lastRepeated.After(newL)), "C08/invariant-preserved")
	}
	zz.Assert(zz.Not(n.lastRepeated.After(newL)), "C08/invariant-preserved")

	// the polling client: asks for everything after its cursor
	got := st.Notices(&NoticeFilter{After: cursor})
	for i := 1; i < len(got); i++ {
		zz.Assert(zz.Not(got[i].lastRepeated.Before(got[i-1].lastRepeated)), "C08/returned-in-order")
	}
	zz.Assert(zz.Implies(repeated, c08contains(got, n)), "C08/new-or-repeated-is-delivered")
	for _, p := range pre {
		zz.Assert(c08contains(got, p.n) == p.n.lastRepeated.After(cursor), "C08/delivered-iff-after-cursor")
	}
	if old != nil {
		// not repeated and already seen => not delivered again
		zz.Assert(zz.Implies(zz.And(zz.Not(repeated), zz.Not(old.lr.After(cursor))), !c08contains(got, n)), "C08/unrepeated-not-redelivered")
	}
	// advancing the cursor to the last element delivers nothing twice
	if len(got) > 0 {
		next := got[len(got)-1].lastRepeated
		again := st.Notices(&NoticeFilter{After: next})
		zz.Assert(len(again) == 0, "C08/nothing-delivered-twice")
	}
	zz.Reach("end")
}

// filters: only the owner (or everyone for public notices) sees a notice; results are exactly the matches
func Harness_C08_Filter() {
	st := New(nil)
	st.Lock()
	defer st.Unlock()
	m := zz.Param("c08.notices", 2)
	pre, L := c08setup(st, m)
	qnow := c08time("querytime")
	zz.Stub("time.Now", func() time.Time { return qnow })
	for _, p := range pre {
		zz.Assume(zz.Not(p.lo.Add(defaultNoticeExpireAfter).Before(qnow)))
	}
	_ = L
	f := &NoticeFilter{UserID: c08uid("filter.user")}
	if zz.NondetBool("filter.hasafter") {
		f.After = c08time("filter.after")
	}
	if zz.NondetBool("filter.haskey") {
		f.Keys = []string{"k0"}
	}
	if zz.NondetBool("filter.hastype") {
		f.Types = []NoticeType{[]NoticeType{WarningNotice, ChangeUpdateNotice}[zz.NondetRange("filter.type", 0, 1)]}
	}
	got := st.Notices(f)
	for _, p := range pre {
		want := true
		if f.UserID != nil && p.n.userID != nil && *f.UserID != *p.n.userID {
			want = false
		}
		if len(f.Keys) > 0 && p.n.key != "k0" {
			want = false
		}
		if len(f.Types) > 0 && f.Types[0] != WarningNotice {
			want = false
		}
		in := c08contains(got, p.n)
		if want && !f.After.IsZero() {
			zz.Assert(in == p.n.lastRepeated.After(f.After), "C08/filter-after")
		} else {
			zz.Assert(in == want, "C08/filter-user-type-key")
		}
		// ownership: a user-specific notice is never returned to a different user
		if in && p.n.userID != nil && f.UserID != nil {
			zz.Assert(*p.n.userID == *f.UserID, "C08/only-owner-sees-user-notice")
		}
	}
	for i := 1; i < len(got); i++ {
		zz.Assert(zz.Not(got[i].lastRepeated.Before(got[i-1].lastRepeated)), "C08/filter-returned-in-order")
	}
	zz.Reach("end")
}
