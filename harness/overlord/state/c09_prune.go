package state

// C09 — pruning removes only finished changes, together with all their tasks.

import (
	"encoding/json"
	"time"

	zz "github.com/snapcore/snapd/zzverif"
)

// c09time returns an arbitrary wall-clock instant (no monotonic reading, as after a reload).
func c09time(name string) time.Time {
	sec := zz.NondetI64(name + ".sec")
	nsec := int64(zz.NondetU32(name+".nsec") & 0x3fffffff)
	zz.Assume(zz.And(zz.And(sec >= 1000000000, sec < 4000000000), zz.And(nsec >= 0, nsec < 1000000000)))
	return time.Unix(sec, nsec)
}

// c09dur picks a duration from a fixed set (whole and fractional seconds, zero, a week):
// division of a symbolic 64-bit duration by 1e9 inside Time.Add is out of reach of the
// solvers, and with every instant symbolic the position of each instant relative to
// now-minus-duration is still arbitrary.
var c09durs = []time.Duration{0, 36*time.Hour + 1500*time.Millisecond}

func c09dur(name string) time.Duration {
	return c09durs[zz.NondetRange(name, 0, len(c09durs)-1)]
}

type c09chg struct {
	c        *Change
	id       string
	ready    bool
	ntasks   int
	taskIDs  []string
	spawn    time.Time
	readyT   time.Time
	hasAttr  bool
	pending  bool
	hasAttr2 bool
	pending2 bool
}

func Harness_C09_Prune() {
	now := c09time("now")
	zz.Stub("time.Now", func() time.Time { return now })
	timeNow = func() time.Time { return now }

	st := New(nil)
	st.Lock()
	defer st.Unlock()

	nchg := zz.Param("c09.changes", 2)
	var chgs []*c09chg
	for k := 0; k < nchg; k++ {
		name := "chg" + string(rune('0'+k))
		ci := &c09chg{}
		ci.c = st.NewChange("kind", "summary")
		ci.id = ci.c.ID()
		ci.ntasks = zz.NondetRange(name+".ntasks", 0, zz.Param("c09.tasks", 2))
		if ci.ntasks > 0 {
			ci.ready = zz.NondetBool(name + ".ready")
		}
		for j := 0; j < ci.ntasks; j++ {
			t := st.NewTask("tkind", "tsummary")
			ci.c.AddTask(t)
			if ci.ready {
				t.status = DoneStatus
			}
			ci.taskIDs = append(ci.taskIDs, t.ID())
		}
		ci.spawn = c09time(name + ".spawn")
		ci.c.spawnTime = ci.spawn
		if ci.ready {
			ci.readyT = c09time(name + ".readytime")
			ci.c.readyTime = ci.readyT
			close(ci.c.ready)
		}
		if !ci.ready && ci.ntasks > 0 {
			ci.hasAttr = zz.NondetBool(name + ".hasattr")
			if ci.hasAttr {
				raw := json.RawMessage("true")
				ci.c.data["pending-attr"] = &raw
			}
			ci.pending = zz.NondetBool(name + ".pending")
			ci.hasAttr2 = zz.NondetBool(name + ".hasattr2")
			if ci.hasAttr2 {
				raw := json.RawMessage("true")
				ci.c.data["pending-attr2"] = &raw
			}
			ci.pending2 = zz.NondetBool(name + ".pending2")
		}
		chgs = append(chgs, ci)
	}
	st.RegisterPendingChangeByAttr("pending-attr", func(c *Change) bool {
		for _, ci := range chgs {
			if ci.c == c {
				return ci.pending
			}
		}
		return false
	})
	st.RegisterPendingChangeByAttr("pending-attr2", func(c *Change) bool {
		for _, ci := range chgs {
			if ci.c == c {
				return ci.pending2
			}
		}
		return false
	})
	start := c09time("start")
	pruneWait := c09dur("pruneWait")
	abortWait := c09dur("abortWait")
	maxReady := zz.NondetRange("maxReady", 0, nchg+1)

	st.Prune(start, pruneWait, abortWait, maxReady)

	pruneLimit := now.Add(-pruneWait)
	abortLimit := now.Add(-abortWait)
	totalReady := 0
	for _, ci := range chgs {
		if ci.ready {
			totalReady++
		}
	}
	remainingReady := 0
	for _, ci := range chgs {
		removed := st.Change(ci.id) == nil
		// tasks go exactly with their change
		for _, tid := range ci.taskIDs {
			zz.Assert((st.Task(tid) == nil) == removed, "C09/tasks-removed-exactly-with-change")
		}
		if ci.ready {
			old := ci.readyT.Before(pruneLimit)
			// rank among the ready changes inside the retention period, newest first
			newerOrSame, strictlyNewer := 0, 0
			for _, cj := range chgs {
				if cj.ready {
					inRet := zz.Not(cj.readyT.Before(pruneLimit))
					newerOrSame += zz.IteInt(zz.And(inRet, zz.Not(cj.readyT.Before(ci.readyT))), 1, 0)
					strictlyNewer += zz.IteInt(zz.And(inRet, ci.readyT.Before(cj.readyT)), 1, 0)
				}
			}
			if removed {
				zz.Assert(zz.Or(old, totalReady > maxReady), "C09/ready-removed-only-if-old-or-over-limit")
				zz.Assert(zz.Or(old, newerOrSame > maxReady), "C09/recent-ready-removed-only-beyond-limit")
				// oldest first: every strictly older ready change went too
				for _, cj := range chgs {
					if cj != ci && cj.ready {
						zz.Assert(zz.Implies(zz.And(zz.Not(old), cj.readyT.Before(ci.readyT)), st.Change(cj.id) == nil), "C09/limit-removes-oldest-first")
					}
				}
			} else {
				remainingReady++
				zz.Assert(zz.Not(old), "C09/old-ready-change-removed")
				zz.Assert(strictlyNewer < maxReady, "C09/kept-ready-is-among-the-newest")
			}
			continue
		}
		// unfinished change
		// max(spawn, start) < limit  <=>  spawn < limit && start < limit
		pastRetention := zz.And(ci.spawn.Before(pruneLimit), start.Before(pruneLimit))
		pastAbort := zz.And(ci.spawn.Before(abortLimit), start.Before(abortLimit))
		if ci.ntasks == 0 {
			zz.Assert(removed == pastRetention, "C09/empty-unready-removed-iff-past-retention")
			continue
		}
		zz.Assert(!removed, "C09/unfinished-change-never-removed")
		if removed {
			continue
		}
		aborted := false
		for _, tid := range ci.taskIDs {
			if st.Task(tid).Status() != DoStatus {
				aborted = true
			}
		}
		wantAbort := zz.And(pastAbort, !(ci.hasAttr && ci.pending) && !(ci.hasAttr2 && ci.pending2))
		zz.Assert(aborted == wantAbort, "C09/aborted-iff-past-abort-period-and-not-pending")
		if aborted {
			for _, tid := range ci.taskIDs {
				zz.Assert(st.Task(tid).Status() == HoldStatus, "C09/abort-holds-unstarted-tasks")
			}
		}
	}
	zz.Assert(remainingReady <= maxReady || totalReady <= maxReady, "C09/at-most-limit-ready-changes-remain")
	zz.Reach("end")
}

// orphan tasks, notices and warnings
func Harness_C09_PruneMisc() {
	now := c09time("now")
	zz.Stub("time.Now", func() time.Time { return now })
	timeNow = func() time.Time { return now }
	st := New(nil)
	st.Lock()
	defer st.Unlock()
	// an orphan task
	orphan := st.NewTask("orphan", "orphan")
	orphanSpawn := c09time("orphan.spawn")
	orphan.spawnTime = orphanSpawn
	orphanID := orphan.ID()

	// one notice and one warning with arbitrary expiry
	nLast := c09time("notice.last")
	nExp := c09dur("notice.expire")
	st.notices[noticeKey{false, 0, ChangeUpdateNotice, "k"}] = &Notice{id: "1", noticeType: ChangeUpdateNotice, key: "k",
		firstOccurred: nLast, lastOccurred: nLast, lastRepeated: nLast, occurrences: 1, expireAfter: nExp}
	wLast := c09time("warning.last")
	wExp := c09dur("warning.expire")
	st.warnings["w"] = &Warning{message: "w", firstAdded: wLast, lastAdded: wLast, expireAfter: wExp}

	start := c09time("start")
	pruneWait := c09dur("pruneWait")
	st.Prune(start, pruneWait, pruneWait, 0)
	pruneLimit := now.Add(-pruneWait)
	// orphan tasks
	_, orphanStill := st.tasks[orphanID]
	zz.Assert(orphanStill == !orphanSpawn.Before(pruneLimit), "C09/orphan-task-removed-iff-old")
	// notices and warnings
	_, nStill := st.notices[noticeKey{false, 0, ChangeUpdateNotice, "k"}]
	zz.Assert(nStill == !nLast.Add(nExp).Before(now), "C09/notice-removed-iff-expired")
	_, wStill := st.warnings["w"]
	zz.Assert(wStill == !wLast.Add(wExp).Before(now), "C09/warning-removed-iff-expired")
	zz.Reach("end")
}
