package state

// C01 (step) — aborting lanes transforms exactly the right tasks:
// Do -> Hold, Doing -> Abort, Done -> Undo, nothing else, only inside the scope of the
// aborted lanes and of what waits on them, and never sparing a task that has no healthy lane.

import (
	zz "github.com/snapcore/snapd/zzverif"
)

func c01live(s Status) bool { return c03is(s, DoStatus, DoingStatus, DoneStatus) }

func Harness_C01_AbortLanes() {
	n := zz.Param("c01.tasks", 3)
	nl := zz.Param("c01.lanes", 2)
	st, chg, tasks, edge := c03graph(n)
	defer st.Unlock()
	// lane membership: every task is in at least one of the lanes 1..nl (concrete shape)
	inLane := make([][]bool, n)
	for k, t := range tasks {
		inLane[k] = make([]bool, nl+1)
		any := false
		for l := 1; l <= nl; l++ {
			member := false
			if zz.Param("c01.fixedlanes", 0) == 1 {
				// fixed pattern: task k is in lane (k mod nl)+1, and the middle tasks also in the next lane
				member = l == k%nl+1 || (k > 0 && k < n-1 && l == (k+1)%nl+1)
			} else {
				member = zz.NondetBool("lane." + string(rune('0'+k)) + string(rune('0'+l)))
			}
			if member {
				t.JoinLane(l)
				inLane[k][l] = true
				any = true
			}
		}
		if !any {
			t.JoinLane(1)
			inLane[k][1] = true
		}
		// tasks in Wait have an arbitrary waited status
		ws := zz.NondetInt("t" + string(rune('0'+k)) + ".waited")
		zz.Assume(zz.And(ws >= 1, ws <= 9))
		t.waitedStatus = Status(ws)
	}
	eff := make([]Status, n)
	pre := make([]Status, n)
	for k, t := range tasks {
		pre[k] = t.status
		eff[k] = Status(zz.IteInt(t.status == WaitStatus, int(t.waitedStatus), int(t.status)))
	}
	// the lanes to abort: any non-empty subset of the lanes
	var kill []int
	killed := make([]bool, nl+1)
	mask := zz.NondetRange("kill.mask", 1, (1<<uint(nl))-1)
	for l := 1; l <= nl; l++ {
		if mask&(1<<uint(l-1)) != 0 {
			kill = append(kill, l)
			killed[l] = true
		}
	}

	chg.AbortLanes(kill)

	// over-approximation of the scope: the killed lanes, everything that (transitively)
	// waits on something in scope, and every lane of a task in scope
	scope := make([]bool, n)
	laneIn := make([]bool, nl+1)
	copy(laneIn, killed)
	for changed := true; changed; {
		changed = false
		for k := 0; k < n; k++ {
			if scope[k] {
				continue
			}
			in := false
			for l := 1; l <= nl; l++ {
				if inLane[k][l] && laneIn[l] {
					in = true
				}
			}
			for a := 0; a < k; a++ {
				if edge[a][k] && scope[a] {
					in = true
				}
			}
			if in {
				scope[k] = true
				changed = true
				for l := 1; l <= nl; l++ {
					if inLane[k][l] && !laneIn[l] {
						laneIn[l] = true
					}
				}
			}
		}
	}
	for k, t := range tasks {
		now := t.status
		same := now == pre[k]
		// (a) only the documented transitions happen
		okT := zz.Or(same, zz.Or(zz.And(eff[k] == DoStatus, now == HoldStatus),
			zz.Or(zz.And(eff[k] == DoingStatus, now == AbortStatus), zz.And(eff[k] == DoneStatus, now == UndoStatus))))
		zz.Assert(okT, "C01/abort-only-do-hold-doing-abort-done-undo")
		// (b) nothing outside the scope is touched
		if !scope[k] {
			zz.Assert(same, "C01/tasks-outside-aborted-scope-untouched")
		}
	}
	// (c) a live task in a killed lane is transformed unless one of its other lanes is healthy
	must := make([]bool, n)
	for k := range tasks {
		inKilled := false
		for l := 1; l <= nl; l++ {
			if inLane[k][l] && killed[l] {
				inKilled = true
			}
		}
		if !inKilled {
			continue
		}
		spared := false // could some other lane of k be entirely live?
		for l := 1; l <= nl; l++ {
			if !inLane[k][l] || killed[l] {
				continue
			}
			// lane l is certainly unhealthy if a task in it (with no killed lane) is not live
			dead := false
			for j := range tasks {
				if !inLane[j][l] {
					continue
				}
				jKilled := false
				for m := 1; m <= nl; m++ {
					if inLane[j][m] && killed[m] {
						jKilled = true
					}
				}
				if !jKilled {
					dead = zz.Or(dead, zz.Not(c01live(eff[j])))
				}
			}
			spared = zz.Or(spared, zz.Not(dead))
		}
		must[k] = zz.Not(spared)
	}
	// ... and so is everything that transitively waits on a task that must be processed
	for b := 0; b < n; b++ {
		for a := 0; a < b; a++ {
			if edge[a][b] {
				must[b] = zz.Or(must[b], must[a])
			}
		}
	}
	for k, t := range tasks {
		zz.Assert(zz.Implies(zz.And(must[k], c01live(eff[k])), t.status != pre[k]), "C01/live-task-without-healthy-lane-is-aborted")
		zz.Assert(zz.Implies(zz.And(must[k], eff[k] == DoStatus), t.status == HoldStatus), "C01/unstarted-task-held")
		zz.Assert(zz.Implies(zz.And(must[k], eff[k] == DoneStatus), t.status == UndoStatus), "C01/done-task-set-to-undo")
	}
	zz.Reach("end")
}
