package state

// C05 — persisted state reloads to the same state, and ids are never reused.

import (
	"bytes"
	"time"

	zz "github.com/snapcore/snapd/zzverif"
)

// c05sym says which part of the saved state is symbolic in the running harness; the rest is
// concrete, so that the three harnesses add up instead of multiplying.
var c05sym struct{ change, task, notice bool }

func c05on(name string) bool {
	switch name[0] {
	case 'c':
		if len(name) > 6 && name[4] == '.' && name[5] == 't' {
			// one task (of the first change) is symbolic at a time
			return c05sym.task && name[3] == '0' && int(name[6]-'0') == zz.Param("c05.symtask", 0)
		}
		return c05sym.change
	case 'e':
		return true
	}
	return c05sym.notice
}

func c05bool(name string) bool {
	if !c05on(name) {
		return len(name)%2 == 0
	}
	return zz.NondetBool(name)
}

func c05int(name string) int {
	if !c05on(name) {
		return len(name)
	}
	return zz.NondetInt(name)
}

func c05time(name string) time.Time {
	if !c05on(name) {
		return time.Unix(1600000000+int64(len(name)), 5).UTC()
	}
	sec := zz.NondetI64(name + ".sec")
	nsec := int64(zz.NondetU32(name+".nsec") & 0x3fffffff)
	zz.Assume(zz.And(zz.And(sec >= 1000000000, sec < 4000000000), nsec < 1000000000))
	return time.Unix(sec, nsec).UTC()
}

func c05maybeTime(name string) time.Time {
	if c05bool(name + ".set") {
		return c05time(name)
	}
	return time.Time{}
}

func c05status(name string, lo int) Status {
	if !c05on(name) {
		return Status(lo + len(name)%(10-lo))
	}
	s := zz.NondetInt(name)
	zz.Assume(zz.And(s >= lo, s <= 10))
	return Status(s)
}

func c05sameStrings(a, b []string) bool {
	if len(a) != len(b) {
		return false
	}
	for i := range a {
		if a[i] != b[i] {
			return false
		}
	}
	return true
}

func Harness_C05_Change() {
	c05sym.change = true
	c05roundTrip()
}

func Harness_C05_Task() {
	c05sym.task = true
	c05roundTrip()
}

func Harness_C05_NoticesAndIDs() {
	c05sym.notice = true
	c05roundTrip()
}

func c05roundTrip() {
	fixed := time.Unix(1700000000, 0)
	timeNow = func() time.Time { return fixed }
	zz.Stub("time.Now", func() time.Time { return fixed })
	st := New(nil)
	st.Lock()
	nchg := zz.Param("c05.changes", 1)
	ntask := zz.Param("c05.tasks", 2)
	var chgs []*Change
	var tasks []*Task
	for c := 0; c < nchg; c++ {
		cn := "chg" + string(rune('0'+c))
		chg := st.NewChange("kind-"+cn, "summary-"+cn)
		chg.status = c05status(cn+".status", 0)
		chg.clean = c05bool(cn + ".clean")
		chg.spawnTime = c05time(cn + ".spawn")
		chg.readyTime = c05maybeTime(cn + ".ready")
		chg.lastRecordedNoticeStatus = c05status(cn+".noticestatus", 0)
		chg.Set("answer", 42)
		var prev *Task
		for k := 0; k < ntask; k++ {
			tn := cn + ".t" + string(rune('0'+k))
			t := st.NewTask("kind-"+tn, "summary-"+tn)
			chg.AddTask(t)
			if prev != nil && c05bool(tn+".waits") {
				t.WaitFor(prev)
			}
			if c05bool(tn + ".lane") {
				t.JoinLane(st.NewLane())
			}
			t.status = c05status(tn+".status", 0)
			t.waitedStatus = c05status(tn+".waited", 1)
			zz.Assume(t.waitedStatus != WaitStatus)
			t.clean = c05bool(tn + ".clean")
			if c05bool(tn + ".hasprogress") {
				t.progress = &progress{Label: "dl", Done: c05int(tn + ".done"), Total: c05int(tn + ".total")}
			}
			t.spawnTime = c05time(tn + ".spawn")
			t.readyTime = c05maybeTime(tn + ".ready")
			t.atTime = c05maybeTime(tn + ".at")
			t.doingTime = time.Duration(c05int(tn + ".doing"))
			t.undoingTime = time.Duration(c05int(tn + ".undoing"))
			t.log = []string{"2024-01-01T00:00:00Z INFO hello"}
			t.Set("k", "v")
			prev = t
			tasks = append(tasks, t)
		}
		chgs = append(chgs, chg)
	}
	// a notice and a warning
	nLast := c05time("notice.last")
	var uid *uint32
	if c05bool("notice.hasuser") {
		u := uint32(c05int("notice.user"))
		uid = &u
	}
	occ := c05int("notice.occurrences")
	u, has := flattenUserID(uid)
	// durations cross the JSON text through Duration.String/ParseDuration: concrete choices
	nRepeat, wRepeat := time.Hour, time.Hour
	if c05bool("notice.norepeat") {
		nRepeat = 0
	}
	if c05bool("warning.alwaysrepeat") {
		wRepeat = 0
	}
	notice := &Notice{id: "7", userID: uid, noticeType: WarningNotice, key: "k", firstOccurred: nLast, lastOccurred: nLast, lastRepeated: nLast,
		occurrences: occ, repeatAfter: nRepeat, expireAfter: 1000000 * time.Hour, lastData: map[string]string{"a": "b"}}
	st.notices[noticeKey{has, u, WarningNotice, "k"}] = notice
	st.lastNoticeTimestamp = c05time("lastNoticeTimestamp")
	wLast := c05time("warning.last")
	st.warnings["w"] = &Warning{message: "w", firstAdded: wLast, lastAdded: wLast, expireAfter: 1000000 * time.Hour, repeatAfter: wRepeat}
	// the id counters are at least what was handed out, possibly more (objects pruned meanwhile)
	extra := zz.NondetInt("extra-ids")
	zz.Assume(zz.And(extra >= 0, extra < 1000))
	st.lastTaskId += extra
	st.lastChangeId += extra
	st.lastLaneId += extra
	st.lastNoticeId = 7 + extra
	zz.Assume(zz.Not(nLast.Add(1000000 * time.Hour).Before(fixed)))
	zz.Assume(zz.Not(wLast.Add(1000000 * time.Hour).Before(fixed)))

	data := st.checkpointData()
	st.Unlock()

	st2, err := ReadState(nil, bytes.NewReader(data))
	zz.Assert(err == nil, "C05/state-reloads")
	if err != nil {
		return
	}
	st2.Lock()
	defer st2.Unlock()
	zz.Assert(len(st2.changes) == len(chgs) && len(st2.tasks) == len(tasks), "C05/no-object-lost-or-duplicated")
	for _, c := range chgs {
		c2 := st2.changes[c.id]
		zz.Assert(c2 != nil, "C05/change-present")
		if c2 == nil {
			continue
		}
		zz.Assert(c2.kind == c.kind && c2.summary == c.summary && c05sameStrings(c2.taskIDs, c.taskIDs), "C05/change-identity")
		zz.Assert(zz.And(c2.status == c.status, zz.And(c2.clean == c.clean, c2.lastRecordedNoticeStatus == c.lastRecordedNoticeStatus)), "C05/change-status-fields")
		zz.Assert(zz.And(c2.spawnTime.Equal(c.spawnTime), c2.readyTime.Equal(c.readyTime)), "C05/change-times")
		var v int
		zz.Assert(c2.Get("answer", &v) == nil && v == 42, "C05/change-data")
	}
	for _, t := range tasks {
		t2 := st2.tasks[t.id]
		zz.Assert(t2 != nil, "C05/task-present")
		if t2 == nil {
			continue
		}
		zz.Assert(t2.kind == t.kind && t2.summary == t.summary && t2.change == t.change, "C05/task-identity")
		zz.Assert(c05sameStrings(t2.waitTasks, t.waitTasks) && c05sameStrings(t2.haltTasks, t.haltTasks) && c05sameStrings(t2.log, t.log), "C05/task-edges-and-log")
		zz.Assert(len(t2.lanes) == len(t.lanes) && (len(t.lanes) == 0 || t2.lanes[0] == t.lanes[0]), "C05/task-lanes")
		zz.Assert(zz.And(t2.status == t.status, zz.And(t2.waitedStatus == t.waitedStatus, t2.clean == t.clean)), "C05/task-status-fields")
		zz.Assert(zz.And(t2.spawnTime.Equal(t.spawnTime), zz.And(t2.readyTime.Equal(t.readyTime), t2.atTime.Equal(t.atTime))), "C05/task-times")
		zz.Assert(zz.And(t2.doingTime == t.doingTime, t2.undoingTime == t.undoingTime), "C05/task-durations")
		if t.progress != nil {
			zz.Assert(t2.progress != nil, "C05/task-progress-present")
			if t2.progress != nil {
				zz.Assert(zz.And(t2.progress.Label == "dl", zz.And(t2.progress.Done == t.progress.Done, t2.progress.Total == t.progress.Total)), "C05/task-progress")
			}
		} else {
			zz.Assert(t2.progress == nil, "C05/task-no-progress")
		}
		var v string
		zz.Assert(t2.Get("k", &v) == nil && v == "v", "C05/task-data")
	}
	n2 := st2.notices[noticeKey{has, u, WarningNotice, "k"}]
	zz.Assert(n2 != nil, "C05/notice-present")
	if n2 != nil {
		zz.Assert(n2.id == "7" && n2.key == "k" && n2.noticeType == WarningNotice && n2.repeatAfter == nRepeat && n2.expireAfter == 1000000*time.Hour && n2.lastData["a"] == "b", "C05/notice-fields")
		zz.Assert(zz.And(n2.occurrences == occ, zz.And(n2.lastRepeated.Equal(nLast), zz.And(n2.firstOccurred.Equal(nLast), n2.lastOccurred.Equal(nLast)))), "C05/notice-times-and-count")
		if uid != nil {
			zz.Assert(n2.userID != nil, "C05/notice-user-present")
			if n2.userID != nil {
				zz.Assert(*n2.userID == *uid, "C05/notice-user")
			}
		} else {
			zz.Assert(n2.userID == nil, "C05/notice-public")
		}
	}
	w2 := st2.warnings["w"]
	zz.Assert(w2 != nil, "C05/warning-present")
	if w2 != nil {
		zz.Assert(zz.And(w2.lastAdded.Equal(wLast), w2.firstAdded.Equal(wLast)), "C05/warning-times")
		zz.Assert(w2.expireAfter == 1000000*time.Hour && w2.repeatAfter == wRepeat, "C05/warning-durations")
	}
	zz.Assert(st2.lastNoticeTimestamp.Equal(st.lastNoticeTimestamp), "C05/last-notice-timestamp")
	zz.Assert(zz.And(zz.And(st2.lastTaskId == st.lastTaskId, st2.lastChangeId == st.lastChangeId), zz.And(st2.lastLaneId == st.lastLaneId, st2.lastNoticeId == st.lastNoticeId)), "C05/id-counters")
	// ids handed out after the reload are new
	nt := st2.NewTask("later", "...")
	nc := st2.NewChange("later", "...")
	for _, t := range tasks {
		zz.Assert(nt.ID() != t.ID(), "C05/task-id-not-reused")
	}
	for _, c := range chgs {
		zz.Assert(nc.ID() != c.ID(), "C05/change-id-not-reused")
	}
	lane := st2.NewLane()
	zz.Assert(lane > st.lastLaneId, "C05/lane-id-not-reused")
	nid, nerr := st2.AddNotice(nil, ChangeUpdateNotice, "x", nil)
	zz.Assert(nerr == nil && nid != "7", "C05/notice-id-not-reused")
	zz.Reach("end")
}
