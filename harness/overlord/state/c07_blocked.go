package state

// C07 (runner half) — serialized task kinds never run concurrently.
//
// The real TaskRunner with a registered blocked predicate expressing a mutual-exclusion relation
// on task kinds (the shape all four real predicates have: "do not start T while a task of a
// conflicting kind is running").  Tasks of two changes, their kinds, the schedule of Ensure
// passes, handler completions and an abort of either change are chosen by the solver; at every
// start of a handler no conflicting handler may still be in flight — including handlers of tasks
// whose change was aborted but which have not returned yet.

import (
	"time"

	"gopkg.in/tomb.v2"

	zz "github.com/snapcore/snapd/zzverif"
)

// kinds: two serialized families, one kind exclusive with everything, one unconstrained
func c07kinds() []string { return []string{"serial-a", "serial-b", "alone", "plain"} }

func c07conflict(a, b string) bool {
	if a == "alone" || b == "alone" {
		return true
	}
	if a == "plain" || b == "plain" {
		return false
	}
	return a == b
}

func Harness_C07_Runner() {
	nchg := 2
	ntask := zz.Param("c07.tasks", 2) // per change
	maxSteps := zz.Param("c07.steps", 8)
	fixed := time.Unix(1700000000, 0)
	timeNow = func() time.Time { return fixed }
	zz.Stub("time.Now", func() time.Time { return fixed })

	st := New(nil)
	r := NewTaskRunner(st)
	inFlight := map[string]bool{}
	kindOf := map[string]string{}
	kinds := c07kinds()
	for _, k := range kinds {
		r.AddHandler(k, func(t *Task, tb *tomb.Tomb) error {
			inFlight[t.ID()] = false // the handler returns
			return nil
		}, func(t *Task, tb *tomb.Tomb) error {
			inFlight[t.ID()] = false
			return nil
		})
	}
	r.AddBlocked(func(t *Task, running []*Task) bool {
		for _, other := range running {
			if c07conflict(t.Kind(), other.Kind()) {
				return true
			}
		}
		return false
	})

	st.Lock()
	var chgs []*Change
	for c := 0; c < nchg; c++ {
		chg := st.NewChange("chg", "...")
		var prev *Task
		for k := 0; k < ntask; k++ {
			tn := "chg" + string(rune('0'+c)) + ".t" + string(rune('0'+k))
			kind := kinds[zz.NondetRange(tn+".kind", 0, len(kinds)-1)]
			t := st.NewTask(kind, tn)
			chg.AddTask(t)
			kindOf[t.ID()] = kind
			if prev != nil && zz.NondetBool(tn+".waits") {
				t.WaitFor(prev)
			}
			prev = t
		}
		chgs = append(chgs, chg)
	}
	starts := 0
	st.AddTaskStatusChangedHandler(func(t *Task, old, new Status) {
		if new != DoingStatus && new != UndoingStatus {
			return
		}
		if old == DoingStatus || old == UndoingStatus {
			return
		}
		// a handler of t is being started now
		starts++
		for id, flying := range inFlight {
			if flying && id != t.ID() {
				zz.Assert(!c07conflict(t.Kind(), kindOf[id]), "C07/conflicting-handlers-never-in-flight-together")
			}
		}
		inFlight[t.ID()] = true
	})
	st.Unlock()

	aborted := false
	for step := 0; step < maxSteps; step++ {
		queued := zz.Counter("goroutines.queued")
		// what can happen next: an Ensure pass, a running handler returning, an abort
		opts := []int{0}
		if queued > 0 {
			opts = append(opts, 1)
		}
		if !aborted {
			opts = append(opts, 2)
		}
		switch opts[zz.NondetRange("sched."+string(rune('a'+step)), 0, len(opts)-1)] {
		case 1:
			zz.RunGoroutine(zz.NondetRange("pick."+string(rune('a'+step)), 0, queued-1))
		case 2:
			aborted = true
			st.Lock()
			// (callers only abort changes that are not ready: daemon abortChange, Prune)
			if chg := chgs[zz.NondetRange("abort.which", 0, nchg-1)]; !chg.IsReady() {
				chg.Abort()
			}
			st.Unlock()
		default:
			r.Ensure()
		}
	}
	zz.Assert(starts >= 0, "C07/ran")
	zz.Reach("end")
}
