package state

// C02 — tasks never start before the tasks they wait for have finished.
//
// One Ensure pass from an arbitrary state: task statuses, dependency edges, schedule
// times, the set of tasks that already run and the clock are all arbitrary.  The
// moment a task is started is observed exactly, through a task-status-changed handler.

import (
	"time"

	"gopkg.in/tomb.v2"

	zz "github.com/snapcore/snapd/zzverif"
)

func c02time(name string) time.Time {
	sec := zz.NondetI64(name + ".sec")
	nsec := int64(zz.NondetU32(name+".nsec") & 0x3fffffff)
	zz.Assume(zz.And(zz.And(sec >= 1000000000, sec < 4000000000), nsec < 1000000000))
	return time.Unix(sec, nsec)
}

func c02ready(s Status) bool {
	return zz.Or(zz.Or(s == DoneStatus, s == UndoneStatus), zz.Or(s == HoldStatus, s == ErrorStatus))
}

type c02world struct {
	st        *State
	r         *TaskRunner
	chg       *Change
	tasks     []*Task
	now       time.Time
	starts    map[string]int
	hasUndo   bool
	resumable int
}

// c02build creates n tasks in one change with arbitrary edges, statuses, schedule and running set.
func c02build(n int, symbolicStatus bool) *c02world {
	w := &c02world{starts: map[string]int{}}
	w.now = c02time("now")
	timeNow = func() time.Time { return w.now }
	w.st = New(nil)
	w.r = NewTaskRunner(w.st)
	nop := func(t *Task, tb *tomb.Tomb) error { return nil }
	w.hasUndo = zz.NondetBool("has-undo")
	if w.hasUndo {
		w.r.AddHandler("kind", nop, nop)
	} else {
		w.r.AddHandler("kind", nop, nil)
	}
	w.st.Lock()
	w.chg = w.st.NewChange("chg", "...")
	for k := 0; k < n; k++ {
		t := w.st.NewTask("kind", "...")
		w.chg.AddTask(t)
		w.tasks = append(w.tasks, t)
	}
	for a := 0; a < n; a++ {
		for b := a + 1; b < n; b++ {
			if zz.NondetBool("edge." + string(rune('0'+a)) + string(rune('0'+b))) {
				w.tasks[b].WaitFor(w.tasks[a])
			}
		}
	}
	for k, t := range w.tasks {
		name := "t" + string(rune('0'+k))
		if symbolicStatus {
			s := zz.NondetInt(name + ".status")
			zz.Assume(zz.And(s >= 1, s <= 10))
			t.status = Status(s)
			ws := zz.NondetInt(name + ".waited")
			zz.Assume(zz.And(ws >= 1, ws <= 9))
			t.waitedStatus = Status(ws)
		}
		// a task is only ever Undoing if its kind has an undo handler
		zz.Assume(zz.Or(w.hasUndo, t.status != UndoingStatus))
		if zz.NondetBool(name + ".scheduled") {
			t.atTime = c02time(name + ".at")
		}
		if zz.NondetBool(name + ".running") {
			// a task with a live goroutine is in Doing/Undoing (or was aborted meanwhile)
			zz.Assume(zz.Or(zz.Or(t.status == DoingStatus, t.status == UndoingStatus), t.status == AbortStatus))
			w.r.tombs[t.ID()] = &tomb.Tomb{}
		} else if t.status == DoingStatus || t.status == UndoingStatus {
			// interrupted by a restart: Ensure resumes it (no status change to observe)
			w.resumable++
		}
	}
	w.st.Unlock()
	return w
}

func Harness_C02_Ensure() {
	n := zz.Param("c02.tasks", 2)
	w := c02build(n, true)
	w.st.Lock()
	w.st.AddTaskStatusChangedHandler(func(t *Task, old, new Status) {
		if new == DoingStatus && old != DoingStatus {
			zz.Reach("do-started")
			w.starts[t.ID()]++
			zz.Assert(old == DoStatus, "C02/do-starts-only-from-do")
			for _, wt := range t.WaitTasks() {
				zz.Assert(wt.Status() == DoneStatus, "C02/do-starts-after-prerequisites-done")
			}
			at := t.AtTime()
			zz.Assert(zz.Or(at.IsZero(), zz.Not(w.now.Before(at))), "C02/not-before-scheduled-time")
			zz.Assert(w.r.tombs[t.ID()] == nil, "C02/not-started-twice")
		}
		if new == UndoingStatus && old != UndoingStatus {
			zz.Reach("undo-started")
			w.starts[t.ID()]++
			zz.Assert(old == UndoStatus, "C02/undo-starts-only-from-undo")
			for _, ht := range t.HaltTasks() {
				zz.Assert(c02ready(ht.Status()), "C02/undo-starts-after-dependents-settled")
			}
			at := t.AtTime()
			zz.Assert(zz.Or(at.IsZero(), zz.Not(w.now.Before(at))), "C02/not-before-scheduled-time")
			zz.Assert(w.r.tombs[t.ID()] == nil, "C02/not-started-twice")
		}
	})
	w.st.Unlock()

	w.r.Ensure()

	w.st.Lock()
	queued := zz.Counter("goroutines.queued")
	total := 0
	for _, t := range w.tasks {
		total += w.starts[t.ID()]
		zz.Assert(w.starts[t.ID()] <= 1, "C02/at-most-one-start-per-pass")
	}
	// every started task got exactly one goroutine, nothing else was spawned
	zz.Assert(queued >= total && queued <= total+w.resumable, "C02/one-goroutine-per-started-task")
	w.st.Unlock()
	zz.Reach("end")
}
