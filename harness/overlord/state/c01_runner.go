package state

// C01/C03/C02 (histories) — bounded runs of the real TaskRunner from the real initial
// state: the dependency graph, which handlers fail (do and undo), whether the kind has an
// undo handler, and the schedule (when Ensure runs, in which order running handlers
// complete) are all chosen by the solver.

import (
	"errors"
	"time"

	"gopkg.in/tomb.v2"

	zz "github.com/snapcore/snapd/zzverif"
)

type c01ghost struct {
	doStarted, doFinished, doFailed       []bool
	undoStarted, undoFinished, undoFailed []bool
	doCalls, undoCalls                    []int
}

func Harness_C01_Runner() {
	n := zz.Param("c01.rtasks", 2)
	maxSteps := zz.Param("c01.steps", 16)
	fixed := time.Unix(1700000000, 0)
	timeNow = func() time.Time { return fixed }
	zz.Stub("time.Now", func() time.Time { return fixed })

	st := New(nil)
	r := NewTaskRunner(st)
	g := &c01ghost{
		doStarted: make([]bool, n), doFinished: make([]bool, n), doFailed: make([]bool, n),
		undoStarted: make([]bool, n), undoFinished: make([]bool, n), undoFailed: make([]bool, n),
		doCalls: make([]int, n), undoCalls: make([]int, n),
	}
	index := map[string]int{}
	failDo := make([]bool, n)
	failUndo := make([]bool, n)
	for k := 0; k < n; k++ {
		failDo[k] = zz.NondetBool("fail.do." + string(rune('0'+k)))
		failUndo[k] = zz.NondetBool("fail.undo." + string(rune('0'+k)))
	}
	do := func(t *Task, tb *tomb.Tomb) error {
		k := index[t.ID()]
		g.doStarted[k] = true
		g.doCalls[k]++
		if failDo[k] {
			g.doFailed[k] = true
			return errors.New("do failed")
		}
		g.doFinished[k] = true
		return nil
	}
	undo := func(t *Task, tb *tomb.Tomb) error {
		k := index[t.ID()]
		g.undoStarted[k] = true
		g.undoCalls[k]++
		if failUndo[k] {
			g.undoFailed[k] = true
			return errors.New("undo failed")
		}
		g.undoFinished[k] = true
		return nil
	}
	hasUndo := zz.NondetBool("has-undo")
	if hasUndo {
		r.AddHandler("kind", do, undo)
	} else {
		r.AddHandler("kind", do, nil)
	}

	st.Lock()
	chg := st.NewChange("chg", "...")
	var tasks []*Task
	for k := 0; k < n; k++ {
		t := st.NewTask("kind", "task-"+string(rune('0'+k)))
		chg.AddTask(t)
		index[t.ID()] = k
		tasks = append(tasks, t)
	}
	edge := make([][]bool, n)
	for a := 0; a < n; a++ {
		edge[a] = make([]bool, n)
		for b := a + 1; b < n; b++ {
			if zz.NondetBool("edge." + string(rune('0'+a)) + string(rune('0'+b))) {
				tasks[b].WaitFor(tasks[a])
				edge[a][b] = true
			}
		}
	}
	// observe every start at the moment it happens
	statusChanges := 0
	st.AddTaskStatusChangedHandler(func(t *Task, old, new Status) {
		statusChanges++
		if new == DoingStatus && (old == DoStatus || old == DefaultStatus) {
			for _, wt := range t.WaitTasks() {
				zz.Assert(wt.Status() == DoneStatus, "C01/do-starts-after-prerequisites-done")
			}
		}
		if new == UndoingStatus && old == UndoStatus {
			for _, ht := range t.HaltTasks() {
				zz.Assert(ht.Status().Ready(), "C01/undo-starts-after-every-dependent-settled")
				// reverse order of effects: no dependent's handler is still running
				zz.Assert(r.tombs[ht.ID()] == nil, "C01/undo-starts-after-dependent-handler-returned")
			}
			zz.Assert(g.doFinished[index[t.ID()]], "C01/only-completed-work-is-undone")
		}
	})
	st.Unlock()

	wasReady := false
	var readyTime time.Time
	quiescent := false
	ensured := false
	for step := 0; step < maxSteps; step++ {
		queued := zz.Counter("goroutines.queued")
		runEnsure := queued == 0
		if !runEnsure && !ensured {
			// Ensure may run between two completions; running it twice in a row changes nothing
			runEnsure = zz.NondetBool("sched.ensure")
		}
		ensured = runEnsure
		if runEnsure {
			before := zz.Counter("goroutines.queued")
			changesBefore := statusChanges
			r.Ensure()
			if queued == 0 && zz.Counter("goroutines.queued") == before && statusChanges == changesBefore {
				// nothing running, and an Ensure pass neither starts nor changes anything: the runner is quiescent
				quiescent = true
			}
		} else {
			zz.RunGoroutine(zz.NondetRange("sched.pick", 0, queued-1))
		}
		// C03: readiness is monotone and the ready time never changes once set
		st.Lock()
		nowReady := chg.IsReady()
		zz.Assert(!wasReady || nowReady, "C03/ready-change-never-unready-again")
		if wasReady {
			zz.Assert(chg.ReadyTime().Equal(readyTime), "C03/ready-time-stable")
		}
		if nowReady && !wasReady {
			readyTime = chg.ReadyTime()
			zz.Assert(!readyTime.IsZero(), "C03/ready-time-set-when-ready")
			zz.Assert(chg.Status().Ready(), "C03/ready-implies-ready-status")
		}
		wasReady = nowReady
		st.Unlock()
		if quiescent {
			break
		}
	}
	zz.Assert(quiescent, "C03/change-settles-within-step-bound")
	if !quiescent {
		return
	}

	st.Lock()
	defer st.Unlock()
	anyFail := false
	for k := 0; k < n; k++ {
		anyFail = anyFail || g.doFailed[k]
	}
	cs := chg.Status()
	zz.Assert(cs.Ready(), "C03/settled-change-is-ready")
	zz.Assert(chg.IsReady(), "C03/settled-change-reported-ready")
	if !anyFail {
		zz.Assert(cs == DoneStatus, "C01/no-failure-means-done")
		for k, t := range tasks {
			zz.Assert(t.Status() == DoneStatus && g.doCalls[k] == 1 && g.undoCalls[k] == 0, "C01/no-failure-every-task-done-once")
		}
		zz.Reach("all-done")
		return
	}
	zz.Assert(cs == ErrorStatus, "C01/failed-change-settles-in-error")
	zz.Assert(chg.Err() != nil, "C03/failed-change-reports-error")
	// all tasks share the default lane: the failure aborts the whole change
	for k, t := range tasks {
		s := t.Status()
		zz.Assert(s.Ready(), "C01/no-task-left-pending")
		zz.Assert(g.doCalls[k] <= 1 && g.undoCalls[k] <= 1, "C01/handlers-run-at-most-once")
		switch {
		case g.doFailed[k]:
			zz.Assert(s == ErrorStatus && g.undoCalls[k] == 0, "C01/failed-task-is-error")
		case !g.doStarted[k]:
			zz.Assert(s == HoldStatus && g.undoCalls[k] == 0, "C01/unstarted-task-held")
		case g.doFinished[k] && hasUndo:
			if g.undoFailed[k] {
				zz.Assert(s == ErrorStatus, "C01/failed-undo-is-error")
			} else {
				zz.Assert(s == UndoneStatus && g.undoCalls[k] == 1, "C01/completed-work-undone-exactly-once")
			}
		case g.doFinished[k] && !hasUndo:
			zz.Assert(g.undoCalls[k] == 0 && (s == DoneStatus || s == HoldStatus), "C01/no-undo-handler-task-left-done")
		}
	}
	zz.Reach("failed-and-settled")
}
