package state

// C04 — a restart at any point resumes changes without redoing finished work.
//
// The real TaskRunner runs a change over the real State whose backend records every checkpoint
// (one per modifying Unlock).  The solver picks the schedule up to the crash, the crash step and
// which recorded checkpoint survives; everything in flight is dropped, the state is re-read with
// ReadState, a fresh TaskRunner with the same handlers runs the change to the end, and the
// handler calls made after the restart are compared with what the reloaded state recorded.

import (
	"bytes"
	"errors"
	"time"

	"gopkg.in/tomb.v2"

	zz "github.com/snapcore/snapd/zzverif"
)

type c04backend struct {
	checkpoints [][]byte
}

func (b *c04backend) Checkpoint(data []byte) error {
	b.checkpoints = append(b.checkpoints, append([]byte(nil), data...))
	return nil
}
func (b *c04backend) EnsureBefore(d time.Duration) {}

type c04calls struct{ do, undo []int }

func c04handlers(r *TaskRunner, index map[string]int, failDo, waitDo []bool, hasUndo bool, calls *c04calls) {
	do := func(t *Task, tb *tomb.Tomb) error {
		k := index[t.ID()]
		calls.do[k]++
		if failDo[k] {
			return errors.New("do failed")
		}
		if waitDo[k] {
			// the work is finished; the task waits for an external event (a reboot)
			return &Wait{Reason: "waiting for reboot", WaitedStatus: DoneStatus}
		}
		return nil
	}
	undo := func(t *Task, tb *tomb.Tomb) error {
		calls.undo[index[t.ID()]]++
		return nil
	}
	if hasUndo {
		r.AddHandler("kind", do, undo)
	} else {
		r.AddHandler("kind", do, nil)
	}
}

func Harness_C04_Restart() {
	n := zz.Param("c04.tasks", 2)
	crashSteps := zz.Param("c04.steps", 5)
	fixed := time.Unix(1700000000, 0)
	timeNow = func() time.Time { return fixed }
	zz.Stub("time.Now", func() time.Time { return fixed })

	be := &c04backend{}
	st := New(be)
	r := NewTaskRunner(st)
	index := map[string]int{}
	failDo := make([]bool, n)
	anyFail := false
	for k := 0; k < n; k++ {
		failDo[k] = zz.NondetBool("fail.do." + string(rune('0'+k)))
		anyFail = anyFail || failDo[k]
	}
	waitDo := make([]bool, n)
	anyWait := false
	if zz.Param("c04.waits", 0) != 0 {
		// (variant: handlers that finish their work and then wait for a reboot; no failures)
		zz.Assume(!anyFail)
		for k := 0; k < n; k++ {
			waitDo[k] = zz.And(!failDo[k], zz.NondetBool("wait.do."+string(rune('0'+k))))
			anyWait = anyWait || waitDo[k]
		}
	}
	hasUndo := zz.NondetBool("has-undo")
	before := &c04calls{do: make([]int, n), undo: make([]int, n)}
	c04handlers(r, index, failDo, waitDo, hasUndo, before)

	st.Lock()
	chg := st.NewChange("chg", "...")
	var ids []string
	var tasks []*Task
	for k := 0; k < n; k++ {
		t := st.NewTask("kind", "task-"+string(rune('0'+k)))
		chg.AddTask(t)
		index[t.ID()] = k
		ids = append(ids, t.ID())
		tasks = append(tasks, t)
	}
	for a := 0; a < n; a++ {
		for b := a + 1; b < n; b++ {
			if zz.NondetBool("edge." + string(rune('0'+a)) + string(rune('0'+b))) {
				tasks[b].WaitFor(tasks[a])
			}
		}
	}
	chgID := chg.ID()
	st.Unlock()

	// run until the crash: Ensure passes and handler completions in an order the solver picks
	for step := 0; step < crashSteps; step++ {
		if zz.NondetBool("crash.before-step." + string(rune('0'+step))) {
			break
		}
		queued := zz.Counter("goroutines.queued")
		if queued == 0 || zz.NondetBool("sched.ensure."+string(rune('0'+step))) {
			r.Ensure()
		} else {
			zz.RunGoroutine(zz.NondetRange("sched.pick."+string(rune('0'+step)), 0, queued-1))
		}
	}
	// either snapd is stopped in an orderly way (the runner is told to stop, running handlers are
	// cancelled and return) and the last checkpoint is what a restart finds ...
	zz.Assume(len(be.checkpoints) > 0)
	var survivor []byte
	orderly := zz.NondetBool("orderly-stop")
	if orderly {
		r.Stop()
		survivor = be.checkpoints[len(be.checkpoints)-1]
	} else {
		// ... or it crashes: any recorded checkpoint may be the one that survives (a crash right after that unlock)
		survivor = be.checkpoints[zz.NondetRange("crash.checkpoint", 0, len(be.checkpoints)-1)]
	}
	dropped := zz.Counter("goroutines.queued") // handlers still in flight die with the process

	st2, err := ReadState(&c04backend{}, bytes.NewReader(survivor))
	zz.Assert(err == nil, "C04/checkpoint-reloads")
	if err != nil {
		return
	}
	r2 := NewTaskRunner(st2)
	after := &c04calls{do: make([]int, n), undo: make([]int, n)}
	c04handlers(r2, index, failDo, waitDo, hasUndo, after)

	st2.Lock()
	zz.Assert(len(st2.Changes()) == 1 && st2.Change(chgID) != nil, "C04/no-change-lost-or-duplicated")
	zz.Assert(len(st2.Tasks()) == n, "C04/no-task-lost-or-duplicated")
	recorded := make([]Status, n)
	for k, id := range ids {
		t := st2.Task(id)
		zz.Assert(t != nil, "C04/task-survives-restart")
		if t == nil {
			st2.Unlock()
			return
		}
		recorded[k] = t.Status()
	}
	chg2 := st2.Change(chgID)
	st2.Unlock()

	// run to the end (a deterministic fair schedule: completions first, then an Ensure pass)
	settled := false
	for step := 0; step < zz.Param("c04.after-steps", 24); step++ {
		queued := zz.Counter("goroutines.queued") - dropped
		if queued > 0 {
			zz.RunGoroutine(dropped)
			continue
		}
		r2.Ensure()
		if zz.Counter("goroutines.queued")-dropped == 0 {
			st2.Lock()
			cs := chg2.Status()
			st2.Unlock()
			// nothing started by a full pass: finished, or (variant) waiting for the reboot
			if cs.Ready() || (anyWait && cs == WaitStatus) {
				settled = true
				break
			}
		}
	}
	zz.Assert(settled, "C04/change-settles-after-restart")
	if !settled {
		return
	}
	st2.Lock()
	defer st2.Unlock()
	cs := chg2.Status()
	if anyFail {
		zz.Assert(cs == ErrorStatus, "C04/same-outcome-error")
	} else if !anyWait {
		zz.Assert(cs == DoneStatus, "C04/same-outcome-done")
	}
	for k, id := range ids {
		t := st2.Task(id)
		if !anyWait {
			zz.Assert(t.Status().Ready(), "C04/no-task-left-pending")
		}
		if orderly && !failDo[k] {
			// an orderly stop lets running handlers return and records their results
			zz.Assert(before.do[k]+after.do[k] <= 1, "C04/work-finished-before-orderly-stop-is-not-redone")
		}
		switch recorded[k] {
		case WaitStatus:
			zz.Assert(after.do[k] == 0 && after.undo[k] == 0 && t.Status() == WaitStatus, "C04/waiting-task-keeps-waiting")
		case DoneStatus:
			zz.Assert(after.do[k] == 0, "C04/finished-task-not-run-again")
			zz.Assert(after.undo[k] <= 1, "C04/finished-task-undone-at-most-once")
		case UndoneStatus, ErrorStatus, HoldStatus:
			zz.Assert(after.do[k] == 0 && after.undo[k] == 0, "C04/settled-task-not-touched")
		case DoingStatus:
			// it was running: run again from the start, unless the change got aborted first
			zz.Assert(after.do[k] <= 1, "C04/interrupted-task-run-again-once")
			if !anyFail && !anyWait {
				zz.Assert(after.do[k] == 1, "C04/interrupted-task-run-again")
			}
		case DoStatus:
			zz.Assert(after.do[k] <= 1, "C04/pending-task-run-at-most-once")
			if !anyFail && !anyWait {
				zz.Assert(after.do[k] == 1, "C04/pending-task-run")
			}
		case UndoingStatus:
			zz.Assert(after.do[k] == 0 && after.undo[k] == 1, "C04/interrupted-undo-run-again")
		case UndoStatus, AbortStatus:
			zz.Assert(after.do[k] == 0 && after.undo[k] <= 1, "C04/pending-undo-run-at-most-once")
		}
		if !anyFail && !anyWait {
			zz.Assert(t.Status() == DoneStatus, "C04/every-task-done")
		}
	}
	zz.Reach("end")
}
