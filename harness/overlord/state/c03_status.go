package state

// C03 — the reported change status is the documented aggregate of the task statuses;
// the change error names every failed task with the error it failed with.

import (
	"strings"
	"time"

	zz "github.com/snapcore/snapd/zzverif"
)

func c03is(s Status, l ...Status) bool {
	r := false
	for _, x := range l {
		r = zz.Or(r, s == x)
	}
	return r
}

// c03graph builds n tasks with arbitrary wait edges (b waits for a, a<b) and arbitrary statuses.
func c03graph(n int) (*State, *Change, []*Task, [][]bool) {
	timeNow = func() time.Time { return time.Unix(1700000000, 0) }
	st := New(nil)
	st.Lock()
	chg := st.NewChange("chg", "...")
	var tasks []*Task
	for k := 0; k < n; k++ {
		t := st.NewTask("kind", "task-"+string(rune('0'+k)))
		chg.AddTask(t)
		tasks = append(tasks, t)
	}
	edge := make([][]bool, n)
	for a := 0; a < n; a++ {
		edge[a] = make([]bool, n)
	}
	for a := 0; a < n; a++ {
		for b := a + 1; b < n; b++ {
			if zz.NondetBool("edge." + string(rune('0'+a)) + string(rune('0'+b))) {
				tasks[b].WaitFor(tasks[a])
				edge[a][b] = true
			}
		}
	}
	for k, t := range tasks {
		s := zz.NondetInt("t" + string(rune('0'+k)) + ".status")
		zz.Assume(zz.And(s >= 1, s <= 10))
		t.status = Status(s)
		t.waitedStatus = DoneStatus
	}
	return st, chg, tasks, edge
}

func Harness_C03_StatusAggregate() {
	n := zz.Param("c03.tasks", 3)
	st, chg, tasks, edge := c03graph(n)
	defer st.Unlock()
	// states reachable through the runner: a task being undone has no dependent that is still to do
	for a := 0; a < n; a++ {
		for b := a + 1; b < n; b++ {
			if edge[a][b] {
				zz.Assume(zz.Not(zz.And(c03is(tasks[a].status, UndoStatus, UndoingStatus, UndoneStatus), c03is(tasks[b].status, DoStatus, DoingStatus))))
			}
		}
	}
	ready := func(s Status) bool { return c03is(s, DoneStatus, UndoneStatus, ErrorStatus, HoldStatus) }
	// a pending task is progressable when nothing it depends on is (transitively) stuck behind a waiter
	pd := make([]bool, n)
	for b := 0; b < n; b++ {
		ok := tasks[b].status == DoStatus
		for a := 0; a < b; a++ {
			if edge[a][b] {
				ok = zz.And(ok, zz.Or(ready(tasks[a].status), zz.And(tasks[a].status == DoStatus, pd[a])))
			}
		}
		pd[b] = ok
	}
	pu := make([]bool, n)
	for a := n - 1; a >= 0; a-- {
		ok := tasks[a].status == UndoStatus
		for b := a + 1; b < n; b++ {
			if edge[a][b] {
				ok = zz.And(ok, zz.Or(ready(tasks[b].status), zz.And(tasks[b].status == UndoStatus, pu[b])))
			}
		}
		pu[a] = ok
	}
	hasWait, active, progress := false, false, false
	for k := range tasks {
		hasWait = zz.Or(hasWait, tasks[k].status == WaitStatus)
		active = zz.Or(active, c03is(tasks[k].status, DoingStatus, UndoingStatus, AbortStatus))
		progress = zz.Or(progress, zz.Or(pd[k], pu[k]))
	}
	waiting := zz.And(hasWait, zz.And(zz.Not(active), zz.Not(progress)))
	// otherwise: the most "in flight" status present wins
	order := []Status{AbortStatus, UndoingStatus, UndoStatus, DoingStatus, DoStatus, WaitStatus, ErrorStatus, UndoneStatus, DoneStatus, HoldStatus}
	want := int(HoldStatus)
	for k := len(order) - 1; k >= 0; k-- {
		present := false
		for _, t := range tasks {
			present = zz.Or(present, t.status == order[k])
		}
		want = zz.IteInt(present, int(order[k]), want)
	}
	want = zz.IteInt(waiting, int(WaitStatus), want)

	got := chg.Status()
	zz.Assert(int(got) == want, "C03/status-is-documented-aggregate")
	allReady := true
	for _, t := range tasks {
		allReady = zz.And(allReady, ready(t.status))
	}
	zz.Assert(got.Ready() == allReady, "C03/change-ready-iff-all-tasks-ready")
	// an explicit status wins
	chg.status = ErrorStatus
	zz.Assert(chg.Status() == ErrorStatus, "C03/explicit-status-wins")
	zz.Reach("end")
}

func Harness_C03_NoTasks() {
	timeNow = func() time.Time { return time.Unix(1700000000, 0) }
	st := New(nil)
	st.Lock()
	defer st.Unlock()
	chg := st.NewChange("chg", "...")
	zz.Assert(chg.Status() == HoldStatus, "C03/no-tasks-is-hold")
	zz.Reach("end")
}

// the change error names every failed task with the error it failed with
func Harness_C03_Err() {
	n := zz.Param("c03.errtasks", 3)
	timeNow = func() time.Time { return time.Unix(1700000000, 0) }
	st := New(nil)
	st.Lock()
	defer st.Unlock()
	chg := st.NewChange("chg", "...")
	failed := make([]bool, n)
	any := false
	for k := 0; k < n; k++ {
		name := string(rune('0' + k))
		t := st.NewTask("kind", "task-"+name)
		chg.AddTask(t)
		t.Logf("starting %s", name)
		if zz.NondetBool("retried." + name) {
			// an earlier attempt logged an error and was retried
			t.Errorf("transient-%s", name)
		}
		failed[k] = zz.NondetBool("failed." + name)
		if failed[k] {
			any = true
			t.Errorf("final-%s", name)
			t.status = ErrorStatus
		} else {
			t.status = DoneStatus
		}
	}
	err := chg.Err()
	if !any {
		zz.Assert(err == nil, "C03/no-error-without-failed-task")
		zz.Reach("no-failure")
		return
	}
	zz.Assert(err != nil, "C03/error-reported")
	if err == nil {
		return
	}
	msg := err.Error()
	for k := 0; k < n; k++ {
		name := string(rune('0' + k))
		if failed[k] {
			zz.Assert(strings.Contains(msg, "task-"+name) && strings.Contains(msg, "final-"+name), "C03/every-failed-task-named-with-its-error")
		} else {
			zz.Assert(!strings.Contains(msg, "task-"+name+" "), "C03/unfailed-task-not-blamed")
		}
	}
	zz.Reach("end")
}
