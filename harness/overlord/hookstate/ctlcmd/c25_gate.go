package ctlcmd

// C25 — non-root callers can only run snapctl's read-only commands (the permission gate).

import (
	zz "github.com/snapcore/snapd/zzverif"
)

// the six commands of the statement, hard-coded here on purpose
var c25readOnly = []string{"get", "services", "set-health", "is-connected", "system-mode", "model"}

func c25arg(name string) string {
	switch zz.NondetRange(name+".kind", 0, 7) {
	case 0:
		return "get"
	case 1:
		return "stop"
	case 2:
		return "-h"
	case 3:
		return "--help"
	case 4:
		return "--"
	case 5:
		return "model"
	case 6:
		return zz.NondetString(name, 2)
	}
	return zz.NondetString(name, 3)
}

func Harness_C25_Gate() {
	uid := zz.NondetU32("uid")
	n := zz.NondetRange("argc", 1, zz.Param("c25.args", 3))
	var args []string
	for k := 0; k < n; k++ {
		args = append(args, c25arg("arg"+string(rune('0'+k))))
	}
	got := isAllowedToRun(uid, args)

	// reference, from the statement
	first := false
	for _, c := range c25readOnly {
		first = zz.Or(first, zz.StrEq(args[0], c))
	}
	help := false
	terminated := false
	for _, a := range args {
		isHelp := zz.Or(zz.StrEq(a, "-h"), zz.StrEq(a, "--help"))
		help = zz.Or(help, zz.And(zz.Not(terminated), isHelp))
		terminated = zz.Or(terminated, zz.StrEq(a, "--"))
	}
	want := zz.Or(uid == 0, zz.Or(first, help))
	zz.Assert(got == want, "C25/gate-allows-exactly-root-readonly-or-help")
	// the statement's safety direction on its own
	zz.Assert(zz.Implies(zz.And(got, uid != 0), zz.Or(first, help)), "C25/non-root-only-readonly-or-help")
	zz.Reach("end")
}

// the allow-list is exactly the six read-only commands and every one of them is a registered command
func Harness_C25_AllowList() {
	zz.Assert(len(nonRootAllowed) == len(c25readOnly), "C25/allow-list-size")
	for _, c := range c25readOnly {
		found := false
		for _, a := range nonRootAllowed {
			if a == c {
				found = true
			}
		}
		zz.Assert(found, "C25/allow-list-content")
		_, registered := commands[c]
		zz.Assert(registered, "C25/allowed-commands-exist")
	}
	zz.Reach("end")
}
