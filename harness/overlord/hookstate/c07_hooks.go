package hookstate

// C07 (hook half) — no two hooks of the same snap run at once.
//
// The real HookManager is constructed on a real TaskRunner (so the blocked predicate it registers
// is the real one); only the run-hook handler is replaced by one that records when it returns.
// Hook tasks of two changes, the snap each hook belongs to (a symbolic name, or "core" whose
// configure hook is hijacked as configstate does), and the schedule are chosen by the solver.

import (
	"time"

	"gopkg.in/tomb.v2"

	"github.com/snapcore/snapd/overlord/state"
	"github.com/snapcore/snapd/snap"
	zz "github.com/snapcore/snapd/zzverif"
)

func Harness_C07_Hooks() {
	fixed := time.Unix(1700000000, 0)
	zz.Stub("time.Now", func() time.Time { return fixed })
	ntask := zz.Param("c07.tasks", 1) // per change
	maxSteps := zz.Param("c07.steps", 6)

	st := state.New(nil)
	runner := state.NewTaskRunner(st)
	mgr, err := Manager(st, runner)
	if err != nil {
		panic(err)
	}
	mgr.RegisterHijack("configure", "core", func(ctx *Context) error { return nil })

	inFlight := map[string]bool{}
	snapOf := map[string]string{}
	runner.AddHandler("run-hook", func(t *state.Task, tb *tomb.Tomb) error {
		inFlight[t.ID()] = false
		return nil
	}, nil)
	runner.AddHandler("other", func(t *state.Task, tb *tomb.Tomb) error { return nil }, nil)

	st.Lock()
	for c := 0; c < 2; c++ {
		chg := st.NewChange("chg", "...")
		for k := 0; k < ntask; k++ {
			tn := "chg" + string(rune('0'+c)) + ".t" + string(rune('0'+k))
			if zz.NondetBool(tn + ".is-hook") {
				name := "core"
				if !zz.NondetBool(tn + ".core") {
					name = "s" + zz.NondetString(tn+".snap", 1)
				}
				hook := []string{"configure", "install"}[zz.NondetRange(tn+".hook", 0, 1)]
				t := st.NewTask("run-hook", tn)
				t.Set("hook-setup", &HookSetup{Snap: name, Revision: snap.R(1), Hook: hook})
				snapOf[t.ID()] = name
				chg.AddTask(t)
			} else {
				chg.AddTask(st.NewTask("other", tn))
			}
		}
	}
	st.AddTaskStatusChangedHandler(func(t *state.Task, old, new state.Status) {
		if new != state.DoingStatus || old == state.DoingStatus || t.Kind() != "run-hook" {
			return
		}
		for id, flying := range inFlight {
			if flying && id != t.ID() {
				zz.Assert(zz.Not(zz.StrEq(snapOf[id], snapOf[t.ID()])), "C07/one-hook-per-snap-at-a-time")
			}
		}
		inFlight[t.ID()] = true
	})
	st.Unlock()

	for step := 0; step < maxSteps; step++ {
		queued := zz.Counter("goroutines.queued")
		if queued > 0 && zz.NondetBool("sched."+string(rune('a'+step))) {
			zz.RunGoroutine(zz.NondetRange("pick."+string(rune('a'+step)), 0, queued-1))
		} else {
			runner.Ensure()
		}
	}
	zz.Reach("end")
}
