package patterns

// C37 — path patterns match exactly their expansions; precedence is order-independent.
//
// Patterns are generated from small templates (the choices are concrete forks: literals, '?',
// '*', '**', escapes, groups, nested groups sharing a prefix, empty alternatives); the path is
// symbolic, so for each pattern the solver decides over all paths of the bounded lengths whether
// whole-pattern matching and per-expansion matching can disagree, and whether the most specific
// of a list of matching expansions can depend on the order of the list.

import (
	zz "github.com/snapcore/snapd/zzverif"
)

func c37atom(name string, atoms []string) string {
	return atoms[zz.NondetRange(name, 0, len(atoms)-1)]
}

func c37path(name string, maxLen int) string {
	n := zz.NondetRange(name+".len", 0, maxLen)
	s := zz.NondetString(name, n)
	ok := true
	for k := 0; k < n; k++ {
		// printable ASCII (patterns and paths are UTF-8 text; the byte-level models are exact on ASCII)
		ok = zz.And(ok, zz.And(s[k] >= 0x20, s[k] < 0x7f))
	}
	// a clean absolute path: no empty components
	for k := 0; k < n; k++ {
		if k == 0 {
			ok = zz.And(ok, s[0] != '/')
		} else {
			ok = zz.And(ok, zz.Not(zz.And(s[k-1] == '/', s[k] == '/')))
		}
	}
	zz.Assume(ok)
	return "/f/" + s
}

func c37atoms() []string {
	all := []string{"a", "*", "b", "?", "**", "\\*", "a*", ""}
	return all[:zz.Param("c37.atoms", 3)]
}

func c37pattern() string {
	at := c37atoms()
	switch zz.NondetRange("shape", 0, zz.Param("c37.shapes", 4)-1) {
	case 0:
		return "/f/" + c37atom("A", at) + c37atom("B", at)
	case 1:
		return "/f/{" + c37atom("A", at) + "," + c37atom("B", at) + "}" + c37atom("C", at)
	case 2:
		// nested groups that share a prefix of alternatives
		x := c37atom("x", []string{"x", ""})
		a, b, c := c37atom("A", at), c37atom("B", at), c37atom("C", at)
		if zz.NondetBool("longer-first") {
			return "/f/{" + x + "{" + a + "," + b + "," + c + "}," + x + "{" + a + "," + b + "}}"
		}
		return "/f/{" + x + "{" + a + "," + b + "}," + x + "{" + a + "," + b + "," + c + "}}"
	default:
		// two groups in sequence, one with an empty alternative, and a possible trailing slash
		tail := c37atom("tail", []string{"", "/"})
		return "/f/{" + c37atom("A", at) + "," + c37atom("B", at) + "}{" + c37atom("C", at) + ",}" + tail
	}
}

// Harness_C37_Expansion: whole-pattern matching agrees with matching any expansion; the number of
// expansions reported is the number enumerated and within the limit.
func Harness_C37_Expansion() {
	pattern := c37pattern()
	pp, err := ParsePathPattern(pattern)
	if err != nil {
		zz.Reach("rejected")
		return
	}
	var variants []PatternVariant
	pp.RenderAllVariants(func(i int, v PatternVariant) {
		zz.Assert(i == len(variants), "C37/variants-enumerated-in-index-order")
		variants = append(variants, v)
	})
	zz.Assert(len(variants) == pp.NumVariants(), "C37/reported-count-is-enumerated-count")
	zz.Assert(len(variants) >= 1 && len(variants) <= maxExpandedPatterns, "C37/count-within-limit")

	path := c37path("path", zz.Param("c37.pathlen", 3))
	if path[len(path)-1] != '/' && zz.NondetBool("directory") {
		path += "/"
	}
	whole, werr := PathPatternMatches(pattern, path)
	zz.Assert(werr == nil, "C37/accepted-pattern-is-matchable")
	any := false
	for _, v := range variants {
		m, verr := PathPatternMatches(v.String(), path)
		zz.Assert(verr == nil, "C37/expansion-is-matchable")
		any = zz.Or(any, m)
	}
	zz.Assert(zz.Implies(whole, any), "C37/pattern-match-implies-an-expansion-matches")
	if path == "/f/" {
		// the path is the pattern's directory prefix itself (empty last component)
		zz.Assert(zz.Implies(any, whole), "C37/expansion-match-implies-pattern-matches/path-is-the-directory-prefix-itself")
	} else {
		zz.Assert(zz.Implies(any, whole), "C37/expansion-match-implies-pattern-matches")
	}
	zz.Reach("end")
}

// Harness_C37_Precedence: three expansions that all match a path; every order of the list gives
// the same most specific one.
func Harness_C37_Precedence() {
	atoms := []string{"a", "*", "\\*", "?", "**", "\\?", "a*", "*a"}[:zz.Param("c37.patoms", 4)]
	var vs []PatternVariant
	for k := 0; k < 3; k++ {
		p := "/f/" + c37atom("P"+string(rune('0'+k)), atoms)
		if zz.NondetBool("P" + string(rune('0'+k)) + ".more") {
			p += c37atom("Q"+string(rune('0'+k)), atoms)
		}
		pp, err := ParsePathPattern(p)
		if err != nil {
			zz.Assume(false)
		}
		pp.RenderAllVariants(func(i int, v PatternVariant) { vs = append(vs, v) })
	}
	zz.Assume(len(vs) == 3)
	// distinct patterns (precedence is between different patterns)
	zz.Assume(vs[0].String() != vs[1].String() && vs[1].String() != vs[2].String() && vs[0].String() != vs[2].String())
	path := c37path("path", zz.Param("c37.pathlen", 2))
	for _, v := range vs {
		m, err := PathPatternMatches(v.String(), path)
		zz.Assume(zz.And(err == nil, m))
	}
	perms := [][]int{{0, 1, 2}, {0, 2, 1}, {1, 0, 2}, {1, 2, 0}, {2, 0, 1}, {2, 1, 0}}
	var first string
	for n, perm := range perms {
		list := []PatternVariant{vs[perm[0]], vs[perm[1]], vs[perm[2]]}
		best, err := HighestPrecedencePattern(list, path)
		zz.Assert(err == nil, "C37/precedence-defined-for-matching-patterns")
		if err != nil {
			return
		}
		if n == 0 {
			first = best.String()
		} else {
			zz.Assert(best.String() == first, "C37/most-specific-pattern-independent-of-order")
		}
	}
	zz.Reach("end")
}
