package policy

// C21 — interface connection decisions follow the declared policy rules.
//
// The declarations are real assertions decoded from text (so the rules are compiled by the real
// asserts code); the candidate plug/slot pair is symbolic (names, attribute values, snap type,
// snap id, publisher ids, presence of the snap-declarations, on-classic). The verdict of the real
// ConnectCandidate/InstallCandidate code is compared with a reference written directly from the
// statement: a matching deny alternative refuses, otherwise one allow alternative must match, and
// the most specific declaration level that has a rule for the interface decides alone.

import (
	"github.com/snapcore/snapd/asserts"
	"github.com/snapcore/snapd/interfaces"
	"github.com/snapcore/snapd/release"
	"github.com/snapcore/snapd/snap"
	zz "github.com/snapcore/snapd/zzverif"
)

const c21trailer = `timestamp: 2016-09-30T12:00:00Z
sign-key-sha3-384: Jv8_JiHiIzJVcO9M55pPdqSDWUvuhfDIBJUS-3VW7F_idjix7Ffn5qMxB21ZQuij

AXNpZw==`

const c21id1 = "snapidsnapidsnapidsnapidsnapid01"
const c21id2 = "snapidsnapidsnapidsnapidsnapid02"

// the rich plug-side rule (interface "pr") and slot-side rule (interface "sr") of the base declaration
const c21base = `type: base-declaration
authority-id: canonical
series: 16
plugs:
  pr:
    allow-installation:
      -
        plug-names:
          - trusted|system
        plug-snap-type:
          - app
      -
        plug-snap-id:
          - ` + c21id1 + `
        on-classic: true
    deny-installation:
      plug-attributes:
        p: D.*
    allow-connection:
      -
        plug-names:
          - trusted|system
        slot-snap-type:
          - app
        slot-publisher-id:
          - $PLUG_PUBLISHER_ID
          - pub1
      -
        slot-names:
          - $INTERFACE
          - s[0-9]
        slot-snap-id:
          - ` + c21id1 + `
        on-classic: true
    deny-connection:
      -
        slot-attributes:
          a: D.*
      -
        plug-attributes:
          p: $SLOT(a)
        slot-publisher-id:
          - pub9
    allow-auto-connection:
      -
        plug-names:
          - auto|matic
        slot-snap-type:
          - core
        slot-publisher-id:
          - pub2
          - $PLUG_PUBLISHER_ID
      -
        slot-names:
          - s[0-9]
        slot-snap-id:
          - ` + c21id2 + `
        on-classic: false
    deny-auto-connection:
      slot-snap-type:
        - gadget
slots:
  sr:
    allow-installation:
      -
        slot-names:
          - trusted|system
        slot-snap-type:
          - app
      -
        slot-snap-id:
          - ` + c21id1 + `
        on-classic: true
    deny-installation:
      slot-attributes:
        a: D.*
    allow-connection:
      -
        slot-names:
          - trusted|system
        plug-snap-type:
          - app
        plug-publisher-id:
          - $SLOT_PUBLISHER_ID
          - pub1
      -
        plug-names:
          - $INTERFACE
          - s[0-9]
        plug-snap-id:
          - ` + c21id1 + `
        slot-snap-type:
          - core
    deny-connection:
      -
        plug-attributes:
          p: D.*
      -
        slot-attributes:
          a: $PLUG(p)
        plug-publisher-id:
          - pub9
    allow-auto-connection:
      -
        slot-names:
          - auto|matic
        plug-snap-type:
          - gadget
        plug-publisher-id:
          - pub2
          - $SLOT_PUBLISHER_ID
      -
        plug-names:
          - s[0-9]
        plug-snap-id:
          - ` + c21id2 + `
        on-classic: false
    deny-auto-connection:
      plug-snap-type:
        - kernel
` + c21trailer

func c21decode(text string) asserts.Assertion {
	a, err := asserts.Decode([]byte(text))
	if err != nil {
		panic("c21: cannot decode: " + err.Error())
	}
	return a
}

func c21snapDecl(name, id, extra string) *asserts.SnapDeclaration {
	return c21decode(`type: snap-declaration
authority-id: canonical
series: 16
snap-name: ` + name + `
snap-id: ` + id + `
publisher-id: publisher
` + extra + c21trailer).(*asserts.SnapDeclaration)
}

// (the policy package's own init — composing the builtin base-declaration — is not run, so no package-level variables here)
func c21type(name string, ts ...snap.Type) snap.Type {
	if zz.Param("c21.wide", 0) != 0 {
		// thorough tier: every snap type on every side
		ts = []snap.Type{snap.TypeApp, snap.TypeGadget, snap.TypeKernel, snap.TypeOS, snap.TypeSnapd, snap.TypeBase}
	}
	if len(ts) == 1 {
		return ts[0]
	}
	return ts[zz.NondetRange(name, 0, len(ts)-1)]
}

// c21str is a symbolic ASCII string of n bytes (the regexp engine model works on ASCII input).
func c21str(name string, n int) string {
	s := zz.NondetString(name, n)
	ok := true
	for k := 0; k < len(s); k++ {
		ok = zz.And(ok, s[k] < 0x80)
	}
	zz.Assume(ok)
	return s
}

// c21typeName is the name a snap type goes by in declarations.
func c21typeName(t snap.Type) string {
	if t == snap.TypeOS || t == snap.TypeSnapd {
		return "core"
	}
	return string(t)
}

type c21cand struct {
	plugName, slotName     string
	hasP, hasA             bool
	attrP, attrA           string
	plugType, slotType     snap.Type
	plugDecl, slotDecl     *asserts.SnapDeclaration // nil when the snap has no declaration
	plugSnapID, slotSnapID string
	plugPub, slotPub       string
	classic                bool
}

// c21candidate builds the symbolic candidate; name lengths are chosen so that the literals of
// the rules, strings with one of them as a proper prefix/suffix, and unrelated strings all exist.
func c21candidate(iface string, plugNameLens, slotNameLens []int, plugTypes, slotTypes []snap.Type, varyP bool) (*c21cand, *ConnectCandidate) {
	c := &c21cand{}
	c.plugName = c21str("plug.name", plugNameLens[zz.NondetRange("plug.namelen", 0, len(plugNameLens)-1)])
	c.slotName = c21str("slot.name", slotNameLens[zz.NondetRange("slot.namelen", 0, len(slotNameLens)-1)])
	c.hasP = true
	if varyP {
		c.hasP = zz.NondetBool("plug.hasattr")
	}
	c.hasA = zz.NondetBool("slot.hasattr")
	c.attrP = c21str("plug.attr", 2)
	c.attrA = c21str("slot.attr", 2)
	c.plugType = c21type("plug.type", plugTypes...)
	c.slotType = c21type("slot.type", slotTypes...)
	c.classic = zz.NondetBool("on-classic")
	release.OnClassic = c.classic

	plugAttrs := map[string]interface{}{}
	if c.hasP {
		plugAttrs["p"] = c.attrP
	}
	slotAttrs := map[string]interface{}{}
	if c.hasA {
		slotAttrs["a"] = c.attrA
	}
	plugSnap := &snap.Info{SuggestedName: "plug-snap", SnapType: c.plugType}
	slotSnap := &snap.Info{SuggestedName: "slot-snap", SnapType: c.slotType}
	plugInfo := &snap.PlugInfo{Snap: plugSnap, Name: c.plugName, Interface: iface, Attrs: plugAttrs}
	slotInfo := &snap.SlotInfo{Snap: slotSnap, Name: c.slotName, Interface: iface, Attrs: slotAttrs}
	plugSet, _ := interfaces.NewSnapAppSet(plugSnap, nil)
	slotSet, _ := interfaces.NewSnapAppSet(slotSnap, nil)

	// snap-declarations: present or not; snap id and publisher id symbolic
	if zz.NondetBool("plug.hasdecl") {
		c.plugDecl = c21snapDecl("plug-snap", "plugsnapidplugsnapidplugsnapid00", "")
		c.plugSnapID = zz.NondetString("plug.snapid", 32)
		c.plugPub = zz.NondetString("plug.publisher", 4)
	}
	if zz.NondetBool("slot.hasdecl") {
		c.slotDecl = c21snapDecl("slot-snap", "slotsnapidslotsnapidslotsnapid00", "")
		c.slotSnapID = zz.NondetString("slot.snapid", 32)
		c.slotPub = zz.NondetString("slot.publisher", 4)
	}
	c21stubDecls(c)
	connc := &ConnectCandidate{
		Plug:                interfaces.NewConnectedPlug(plugInfo, plugSet, nil, nil),
		Slot:                interfaces.NewConnectedSlot(slotInfo, slotSet, nil, nil),
		PlugSnapDeclaration: c.plugDecl,
		SlotSnapDeclaration: c.slotDecl,
	}
	return c, connc
}

// c21stubDecls makes the two decoded snap-declarations report the symbolic ids.
func c21stubDecls(c *c21cand) {
	zz.Stub("(*github.com/snapcore/snapd/asserts.SnapDeclaration).SnapID", func(d *asserts.SnapDeclaration) string {
		if d == c.plugDecl {
			return c.plugSnapID
		}
		return c.slotSnapID
	})
	zz.Stub("(*github.com/snapcore/snapd/asserts.SnapDeclaration).PublisherID", func(d *asserts.SnapDeclaration) string {
		if d == c.plugDecl {
			return c.plugPub
		}
		return c.slotPub
	})
}

func c21in(s string, lits ...string) bool {
	r := false
	for _, l := range lits {
		r = zz.Or(r, zz.StrEq(s, l))
	}
	return r
}

// c21sDigit is the reference for the name regexp s[0-9] (names here have at least 2 bytes).
func c21sDigit(s string) bool {
	if len(s) != 2 {
		return false
	}
	return zz.And(s[0] == 's', zz.And(s[1] >= '0', s[1] <= '9'))
}

// c21startsD is the reference for the attribute regexp D.* on a 2-byte value: "." does not match a newline.
func c21startsD(has bool, s string) bool {
	return zz.And(has, zz.And(s[0] == 'D', s[1] != '\n'))
}

// c21pub is the reference for a publisher-id list [$OTHER, lit]: unset never matches, an
// unresolvable $OTHER is skipped.
func c21pub(id, other, lit string) bool {
	return zz.And(zz.Not(zz.StrEq(id, "")), zz.Or(zz.And(zz.Not(zz.StrEq(other, "")), zz.StrEq(id, other)), zz.StrEq(id, lit)))
}

func c21id(id, lit string) bool {
	return zz.And(zz.Not(zz.StrEq(id, "")), zz.StrEq(id, lit))
}

// Harness_C21_PlugRule: the plug-side rule "pr" of the base declaration decides (no snap-declaration
// has rules); connection and auto-connection.
func Harness_C21_PlugRule() {
	base := c21decode(c21base).(*asserts.BaseDeclaration)
	auto := zz.Param("c21.auto", 0) != 0
	var plens, slens []int
	if auto {
		plens, slens = []int{4, 5, 9}, []int{2}
	} else {
		plens, slens = []int{6, 7, 11}, []int{2}
	}
	c, connc := c21candidate("pr", plens, slens, []snap.Type{snap.TypeApp}, []snap.Type{snap.TypeApp, snap.TypeOS, snap.TypeSnapd, snap.TypeGadget}, true)
	connc.BaseDeclaration = base
	slotT := c21typeName(c.slotType)
	var want bool
	if !auto {
		a1 := zz.And(c21in(c.plugName, "trusted", "system"), zz.And(slotT == "app", c21pub(c.slotPub, c.plugPub, "pub1")))
		a2 := zz.And(zz.Or(zz.StrEq(c.slotName, "pr"), c21sDigit(c.slotName)), zz.And(c21id(c.slotSnapID, c21id1), c.classic))
		d1 := c21startsD(c.hasA, c.attrA)
		d2 := zz.And(zz.And(c.hasP, zz.And(c.hasA, zz.StrEq(c.attrP, c.attrA))), c21id(c.slotPub, "pub9"))
		want = zz.And(zz.Not(zz.Or(d1, d2)), zz.Or(a1, a2))
	} else {
		a1 := zz.And(c21in(c.plugName, "auto", "matic"), zz.And(slotT == "core", c21pub(c.slotPub, c.plugPub, "pub2")))
		a2 := zz.And(c21sDigit(c.slotName), zz.And(c21id(c.slotSnapID, c21id2), zz.Not(c.classic)))
		d1 := slotT == "gadget"
		want = zz.And(zz.Not(d1), zz.Or(a1, a2))
	}
	var err error
	if auto {
		_, err = connc.CheckAutoConnect()
	} else {
		err = connc.Check()
	}
	zz.Assert(zz.Implies(want, err == nil), "C21/plug-rule-allows-what-policy-allows")
	zz.Assert(zz.Implies(err == nil, want), "C21/plug-rule-refuses-what-policy-refuses")
	zz.Reach("end")
}

// Harness_C21_SlotRule: the slot-side rule "sr" of the base declaration decides.
func Harness_C21_SlotRule() {
	base := c21decode(c21base).(*asserts.BaseDeclaration)
	auto := zz.Param("c21.auto", 0) != 0
	var plens, slens []int
	if auto {
		plens, slens = []int{2}, []int{4, 5, 9}
	} else {
		plens, slens = []int{2}, []int{6, 7, 11}
	}
	c, connc := c21candidate("sr", plens, slens, []snap.Type{snap.TypeApp, snap.TypeGadget, snap.TypeKernel}, []snap.Type{snap.TypeApp, snap.TypeOS, snap.TypeSnapd}, true)
	connc.BaseDeclaration = base
	plugT := c21typeName(c.plugType)
	slotT := c21typeName(c.slotType)
	var want bool
	if !auto {
		a1 := zz.And(c21in(c.slotName, "trusted", "system"), zz.And(plugT == "app", c21pub(c.plugPub, c.slotPub, "pub1")))
		a2 := zz.And(zz.Or(zz.StrEq(c.plugName, "sr"), c21sDigit(c.plugName)), zz.And(c21id(c.plugSnapID, c21id1), slotT == "core"))
		d1 := c21startsD(c.hasP, c.attrP)
		d2 := zz.And(zz.And(c.hasP, zz.And(c.hasA, zz.StrEq(c.attrP, c.attrA))), c21id(c.plugPub, "pub9"))
		want = zz.And(zz.Not(zz.Or(d1, d2)), zz.Or(a1, a2))
	} else {
		a1 := zz.And(c21in(c.slotName, "auto", "matic"), zz.And(plugT == "gadget", c21pub(c.plugPub, c.slotPub, "pub2")))
		a2 := zz.And(c21sDigit(c.plugName), zz.And(c21id(c.plugSnapID, c21id2), zz.Not(c.classic)))
		d1 := plugT == "kernel"
		want = zz.And(zz.Not(d1), zz.Or(a1, a2))
	}
	var err error
	if auto {
		_, err = connc.CheckAutoConnect()
	} else {
		err = connc.Check()
	}
	zz.Assert(zz.Implies(want, err == nil), "C21/slot-rule-allows-what-policy-allows")
	zz.Assert(zz.Implies(err == nil, want), "C21/slot-rule-refuses-what-policy-refuses")
	zz.Reach("end")
}

// Harness_C21_Install: installation rules of "pr" (plug) and "sr" (slot) follow deny-over-allow.
func Harness_C21_Install() {
	base := c21decode(c21base).(*asserts.BaseDeclaration)
	slotSide := zz.NondetBool("slot-side")
	name := c21str("name", []int{6, 7, 11}[zz.NondetRange("namelen", 0, 3-1)])
	has := zz.NondetBool("hasattr")
	attr := c21str("attr", 2)
	typ := c21type("type", snap.TypeApp, snap.TypeGadget, snap.TypeOS)
	classic := zz.NondetBool("on-classic")
	release.OnClassic = classic
	info := &snap.Info{SuggestedName: "the-snap", SnapType: typ, Plugs: map[string]*snap.PlugInfo{}, Slots: map[string]*snap.SlotInfo{}}
	attrs := map[string]interface{}{}
	if slotSide {
		if has {
			attrs["a"] = attr
		}
		info.Slots["x"] = &snap.SlotInfo{Snap: info, Name: name, Interface: "sr", Attrs: attrs}
	} else {
		if has {
			attrs["p"] = attr
		}
		info.Plugs["x"] = &snap.PlugInfo{Snap: info, Name: name, Interface: "pr", Attrs: attrs}
	}
	ic := &InstallCandidate{Snap: info, BaseDeclaration: base}
	snapID := ""
	if zz.NondetBool("hasdecl") {
		ic.SnapDeclaration = c21snapDecl("the-snap", "thesnapidthesnapidthesnapidthe00", "")
		snapID = zz.NondetString("snapid", 32)
		zz.Stub("(*github.com/snapcore/snapd/asserts.SnapDeclaration).SnapID", func(d *asserts.SnapDeclaration) string { return snapID })
	}
	a1 := zz.And(c21in(name, "trusted", "system"), c21typeName(typ) == "app")
	a2 := zz.And(c21id(snapID, c21id1), classic)
	d1 := c21startsD(has, attr)
	want := zz.And(zz.Not(d1), zz.Or(a1, a2))
	err := ic.Check()
	zz.Assert(zz.Implies(want, err == nil), "C21/install-allows-what-policy-allows")
	zz.Assert(zz.Implies(err == nil, want), "C21/install-refuses-what-policy-refuses")
	zz.Reach("end")
}

// Harness_C21_Precedence: each of the four levels may or may not have a rule for the interface;
// each level's rule keys on a different symbolic property of the candidate, so the verdict tells
// which level decided.
func Harness_C21_Precedence() {
	mask := zz.NondetRange("levels", 0, 16-1)
	iface := "i" + string(rune('a'+mask))
	// level 0: plug snap-declaration plug rule; 1: slot snap-declaration slot rule;
	// 2: base-declaration plug rule; 3: base-declaration slot rule
	var plugRules, slotRules, basePlugs, baseSlots string
	for m := 0; m < 16; m++ {
		ifc := "i" + string(rune('a'+m))
		if m&1 != 0 {
			plugRules += "  " + ifc + ":\n    allow-connection:\n      slot-snap-type:\n        - app\n    allow-auto-connection:\n      slot-snap-type:\n        - app\n"
		}
		if m&2 != 0 {
			slotRules += "  " + ifc + ":\n    allow-connection:\n      plug-snap-type:\n        - gadget\n    allow-auto-connection:\n      plug-snap-type:\n        - gadget\n"
		}
		if m&4 != 0 {
			basePlugs += "  " + ifc + ":\n    allow-connection:\n      on-classic: true\n    allow-auto-connection:\n      on-classic: true\n"
		}
		if m&8 != 0 {
			baseSlots += "  " + ifc + ":\n    deny-connection:\n      slot-attributes:\n        a: D.*\n    deny-auto-connection:\n      slot-attributes:\n        a: D.*\n"
		}
	}
	base := c21decode("type: base-declaration\nauthority-id: canonical\nseries: 16\nplugs:\n" + basePlugs + "slots:\n" + baseSlots + c21trailer).(*asserts.BaseDeclaration)
	c, connc := c21candidate(iface, []int{2}, []int{2}, []snap.Type{snap.TypeGadget, snap.TypeApp}, []snap.Type{snap.TypeApp, snap.TypeSnapd}, false)
	connc.BaseDeclaration = base
	if c.plugDecl != nil {
		c.plugDecl = c21snapDecl("plug-snap", "plugsnapidplugsnapidplugsnapid00", "plugs:\n"+plugRules)
		connc.PlugSnapDeclaration = c.plugDecl
	}
	if c.slotDecl != nil {
		c.slotDecl = c21snapDecl("slot-snap", "slotsnapidslotsnapidslotsnapid00", "slots:\n"+slotRules)
		connc.SlotSnapDeclaration = c.slotDecl
	}
	var want bool
	switch {
	case mask&1 != 0 && c.plugDecl != nil:
		want = c21typeName(c.slotType) == "app"
	case mask&2 != 0 && c.slotDecl != nil:
		want = c21typeName(c.plugType) == "gadget"
	case mask&4 != 0:
		want = c.classic
	case mask&8 != 0:
		want = zz.Not(c21startsD(c.hasA, c.attrA))
	default:
		want = true
	}
	var err error
	if zz.Param("c21.auto", 0) != 0 {
		_, err = connc.CheckAutoConnect()
	} else {
		err = connc.Check()
	}
	zz.Assert(zz.Implies(want, err == nil), "C21/most-specific-level-allows")
	zz.Assert(zz.Implies(err == nil, want), "C21/most-specific-level-refuses")
	zz.Reach("end")
}
