package osutil

// C28 (codec part) — mount entries survive being written to and read back from a mount profile.

import (
	zz "github.com/snapcore/snapd/zzverif"
)

func c28ascii(s string) {
	for i := 0; i < len(s); i++ {
		zz.Assume(s[i] < 0x80)
	}
}

func c28field(name string, max int) string {
	n := zz.NondetRange(name+".len", 1, max)
	s := zz.NondetString(name, n)
	c28ascii(s)
	return s
}

// escape/unescape are inverse on every (ASCII) string
func Harness_C28_Escape() {
	n := zz.NondetRange("len", 0, zz.Param("c28.esclen", 4))
	s := zz.NondetString("s", n)
	c28ascii(s)
	e := Escape(s)
	zz.Assert(zz.StrEq(Unescape(e), s), "C28/unescape-inverts-escape")
	// the escaped form never contains a field separator or a line break
	for i := 0; i < len(e); i++ {
		zz.Assert(zz.And(e[i] != ' ', zz.And(e[i] != '\t', e[i] != '\n')), "C28/escaped-has-no-separators")
	}
	zz.Reach("end")
}

// an entry reads back unchanged from its textual form.  One field at a time is symbolic (up
// to c28.fieldlen arbitrary ASCII bytes); that fields cannot disturb each other follows from
// the escaped form containing no separator (Harness_C28_Escape).
func Harness_C28_EntryRoundTrip() {
	max := zz.Param("c28.fieldlen", 2)
	which := zz.NondetRange("which", 0, 4)
	e := MountEntry{Name: "dev", Dir: "/mnt", Type: "ext4", DumpFrequency: 3, CheckPassNumber: 7}
	sym := c28field("field", max)
	// documented conventions of the format: '#' starts a comment, "none"/"defaults" stand for empty
	zz.Assume(sym[0] != '#')
	nopts := 0
	switch which {
	case 0:
		e.Name = sym
	case 1:
		e.Dir = sym
	case 2:
		e.Type = sym
	case 3:
		for i := 0; i < len(sym); i++ {
			zz.Assume(sym[i] != ',')
		}
		e.Options = []string{sym}
		nopts = 1
	case 4:
		for i := 0; i < len(sym); i++ {
			zz.Assume(sym[i] != ',')
		}
		e.Options = []string{"ro", sym}
		nopts = 2
	}
	text := e.String()
	back, err := ParseMountEntry(text)
	zz.Assert(err == nil, "C28/written-entry-parses")
	if err != nil {
		return
	}
	zz.Assert(zz.StrEq(back.Name, e.Name), "C28/name-roundtrip")
	zz.Assert(zz.StrEq(back.Dir, e.Dir), "C28/dir-roundtrip")
	zz.Assert(zz.StrEq(back.Type, e.Type), "C28/type-roundtrip")
	zz.Assert(back.DumpFrequency == e.DumpFrequency && back.CheckPassNumber == e.CheckPassNumber, "C28/numbers-roundtrip")
	if nopts == 0 {
		zz.Assert(len(back.Options) == 1 && back.Options[0] == "defaults", "C28/no-options-reads-as-defaults")
	} else {
		zz.Assert(len(back.Options) == nopts, "C28/option-count-roundtrip")
		if len(back.Options) == nopts {
			for k := range e.Options {
				zz.Assert(zz.StrEq(back.Options[k], e.Options[k]), "C28/options-roundtrip")
			}
		}
	}
	zz.Reach("end")
}
