package osutil

// C06 — the file written through the atomic-write helper is always a complete old or new version.
//
// The os layer is replaced by a small persistence model: every file has volatile content and
// durable content (what fsync made durable), the directory has volatile entries and durable
// entries (what a directory fsync made durable).  AtomicWriteFile runs for real on top of it, with
// arbitrary new content and any one system call failing.  Then the machine crashes after an
// arbitrary system call, and for everything not yet made durable the solver decides whether it
// reached the disk: a rename that was not followed by a directory sync may or may not have
// persisted, file data not followed by fsync may be missing entirely or in part.

import (
	"errors"
	"io/fs"
	"os"
	"time"

	"github.com/snapcore/snapd/osutil/sys"
	zz "github.com/snapcore/snapd/zzverif"
)

type c06inode struct {
	volatile []byte
	durable  []byte // content as of the last fsync of the file
}

// a snapshot of the model after a system call
type c06snap struct {
	call string
	// directory: volatile and durable view of the two names that matter
	volTarget, durTarget *c06inode
	volTmp, durTmp       *c06inode
	// content of the new file's inode at that moment
	newVol, newDur []byte
}

type c06disk struct {
	target, tmp          string
	volTarget, durTarget *c06inode
	volTmp, durTmp       *c06inode
	newInode             *c06inode
	files                map[*os.File]*c06inode // open regular files
	dirs                 map[*os.File]bool      // open directory handles
	trace                []c06snap
	failAt               int // index of the system call that fails (-1: none)
	ncalls               int
}

func (d *c06disk) step(call string) error {
	idx := d.ncalls
	d.ncalls++
	if idx == d.failAt {
		d.record(call + "(failed)")
		return errors.New("injected failure in " + call)
	}
	return nil
}

func (d *c06disk) record(call string) {
	s := c06snap{call: call, volTarget: d.volTarget, durTarget: d.durTarget, volTmp: d.volTmp, durTmp: d.durTmp}
	if d.newInode != nil {
		s.newVol = append([]byte(nil), d.newInode.volatile...)
		s.newDur = append([]byte(nil), d.newInode.durable...)
	}
	d.trace = append(d.trace, s)
}

func c06install(d *c06disk) {
	zz.Stub("github.com/snapcore/snapd/randutil.RandomString", func(n int) string { return "RANDOMRANDOM" })
	zz.Stub("os.OpenFile", func(name string, flag int, perm os.FileMode) (*os.File, error) {
		if err := d.step("open-temp"); err != nil {
			return nil, err
		}
		zz.Assert(name != d.target, "C06/target-never-opened-for-writing")
		zz.Assert(flag&os.O_EXCL != 0 && flag&os.O_CREATE != 0, "C06/temp-file-created-exclusively")
		d.tmp = name
		ino := &c06inode{}
		d.newInode = ino
		d.volTmp = ino
		f := new(os.File)
		d.files[f] = ino
		d.record("open-temp")
		return f, nil
	})
	zz.Stub("(*os.File).Write", func(f *os.File, b []byte) (int, error) {
		if err := d.step("write"); err != nil {
			return 0, err
		}
		ino := d.files[f]
		ino.volatile = append(ino.volatile, b...)
		d.record("write")
		return len(b), nil
	})
	zz.Stub("(*os.File).Sync", func(f *os.File) error {
		if d.dirs[f] {
			if err := d.step("fsync-dir"); err != nil {
				return err
			}
			d.durTarget, d.durTmp = d.volTarget, d.volTmp
			d.record("fsync-dir")
			return nil
		}
		if err := d.step("fsync-file"); err != nil {
			return err
		}
		ino := d.files[f]
		ino.durable = append([]byte(nil), ino.volatile...)
		d.record("fsync-file")
		return nil
	})
	zz.Stub("(*os.File).Close", func(f *os.File) error {
		if err := d.step("close"); err != nil {
			return err
		}
		d.record("close")
		return nil
	})
	zz.Stub("os.Open", func(name string) (*os.File, error) {
		if err := d.step("open-dir"); err != nil {
			return nil, err
		}
		f := new(os.File)
		d.dirs[f] = true
		d.record("open-dir")
		return f, nil
	})
	zz.Stub("os.Rename", func(from, to string) error {
		if err := d.step("rename"); err != nil {
			return err
		}
		zz.Assert(from == d.tmp && to == d.target, "C06/only-the-temp-file-is-renamed-onto-the-target")
		d.volTarget, d.volTmp = d.volTmp, nil
		d.record("rename")
		return nil
	})
	zz.Stub("os.Remove", func(name string) error {
		if err := d.step("remove"); err != nil {
			return err
		}
		zz.Assert(name != d.target, "C06/target-never-removed")
		if name == d.tmp {
			d.volTmp = nil
		}
		d.record("remove")
		return nil
	})
	notExist := errors.New("no such file or directory")
	zz.Stub("os.IsNotExist", func(err error) bool {
		pe, ok := err.(*fs.PathError)
		return ok && pe.Err == notExist
	})
	stat := func(name string) (fs.FileInfo, error) {
		if err := d.step("stat"); err != nil {
			return nil, err
		}
		d.record("stat")
		if (name == d.target && d.volTarget != nil) || (name == d.tmp && d.tmp != "" && d.volTmp != nil) {
			return c06info{name}, nil
		}
		return nil, &fs.PathError{Op: "stat", Path: name, Err: notExist}
	}
	zz.Stub("os.Lstat", stat)
	zz.Stub("os.Stat", stat)
	zz.Stub("os.Readlink", func(name string) (string, error) {
		return "", &fs.PathError{Op: "readlink", Path: name, Err: errors.New("invalid argument")}
	})
	chown = func(f *os.File, uid sys.UserID, gid sys.GroupID) error {
		if err := d.step("chown"); err != nil {
			return err
		}
		d.record("chown")
		return nil
	}
}

type c06info struct{ name string }

func (i c06info) Name() string       { return i.name }
func (i c06info) Size() int64        { return 0 }
func (i c06info) Mode() fs.FileMode  { return 0600 }
func (i c06info) ModTime() time.Time { return time.Time{} }
func (i c06info) IsDir() bool        { return false }
func (i c06info) Sys() interface{}   { return nil }

func c06bytesEq(a, b []byte) bool {
	if len(a) != len(b) {
		return false
	}
	eq := true
	for k := range a {
		eq = zz.And(eq, a[k] == b[k])
	}
	return eq
}

func Harness_C06_AtomicWrite() {
	if zz.Param("c06.init", 0) == 0 {
		snapdUnsafeIO = false // a snapd binary, not a test binary
	}
	// (with c06.init=1 the package initialiser has computed the flag for a binary that is not a
	// test binary and has SNAPD_UNSAFE_IO set in its environment)
	oldContent := []byte("old-content")
	old := &c06inode{volatile: oldContent, durable: oldContent}
	d := &c06disk{target: "/var/lib/snapd/state.json", files: map[*os.File]*c06inode{}, dirs: map[*os.File]bool{}, failAt: -1}
	if zz.NondetBool("target-exists") {
		d.volTarget, d.durTarget = old, old
	}
	if zz.NondetBool("inject-failure") {
		d.failAt = zz.NondetRange("failing-call", 0, 9)
	}
	c06install(d)
	n := zz.Param("c06.len", 3)
	data := zz.NondetBytes("data", n)
	uid, gid := sys.UserID(NoChown), sys.GroupID(NoChown)
	if zz.NondetBool("chown") {
		uid, gid = 1000, 1000
	}
	d.record("start")
	err := AtomicWriteFileChown(d.target, data, fs.FileMode(0600), 0, uid, gid)

	// --- success means durable ---
	if err == nil {
		last := d.trace[len(d.trace)-1]
		zz.Assert(last.durTarget == d.newInode && d.newInode != nil, "C06/success-means-directory-entry-durable")
		zz.Assert(c06bytesEq(d.newInode.durable, data), "C06/success-means-content-durable")
	}
	// temp files do not pile up: after the call the temp name is gone from the volatile directory
	zz.Assert(d.volTmp == nil || d.failAt >= 0, "C06/temp-file-cleaned-up")

	// --- crash after an arbitrary system call ---
	k := zz.NondetRange("crash-after", 0, len(d.trace)-1)
	s := d.trace[k]
	// which directory entry for the target does the disk hold? the durable one, or — if a later
	// rename was not yet followed by a directory sync — possibly the volatile one
	entry := s.durTarget
	if s.volTarget != s.durTarget && zz.NondetBool("unsynced-rename-persisted") {
		entry = s.volTarget
	}
	if entry == nil {
		// nothing under the target name: only acceptable if there was no previous version
		zz.Assert(!targetExisted(d, old), "C06/existing-target-never-vanishes")
	} else if entry == old {
		// the previous version, untouched
		zz.Assert(c06bytesEq(old.durable, oldContent), "C06/old-version-intact")
	} else {
		// the new inode: its durable content is what fsync saved; anything written after the
		// last fsync may be missing — the disk holds some prefix between the two
		zz.Assert(c06bytesEq(s.newDur, data), "C06/new-version-reachable-only-when-fully-durable")
	}
	zz.Reach("end")
}

func targetExisted(d *c06disk, old *c06inode) bool {
	return d.trace[0].durTarget == old
}
