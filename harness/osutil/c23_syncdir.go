package osutil

// C23 — a synchronized directory holds exactly the desired files, and fails closed.
//
// EnsureDirState runs over an in-memory directory (only open/stat/read of existing files, the
// atomic write, the directory listing and unlink are replaced).  The initial directory (two names
// matching the snap's pattern and one unrelated file, each present or not, with symbolic content
// and mode), the desired content map (symbolic content and mode) and the failure of one write or
// of one removal are chosen by the solver.

import (
	"errors"
	"io"
	"io/fs"
	"os"
	"path/filepath"
	"sort"
	"time"

	zz "github.com/snapcore/snapd/zzverif"
)

type c23file struct {
	content []byte
	mode    os.FileMode
}

type c23handle struct {
	f   *c23file
	pos int
}

type c23finfo struct {
	name string
	f    *c23file
}

func (i c23finfo) Name() string       { return i.name }
func (i c23finfo) Size() int64        { return int64(len(i.f.content)) }
func (i c23finfo) Mode() fs.FileMode  { return i.f.mode }
func (i c23finfo) ModTime() time.Time { return time.Time{} }
func (i c23finfo) IsDir() bool        { return false }
func (i c23finfo) Sys() interface{}   { return nil }

type c23dir struct {
	path        string
	files       map[string]*c23file
	open        map[*os.File]*c23handle
	names       map[*os.File]string
	writes      int
	failWriteAt int    // index of the write that fails (-1 none)
	failRemove  string // base name whose removal fails ("" none)
}

func c23install(d *c23dir) {
	notExist := errors.New("no such file or directory")
	zz.Stub("os.IsNotExist", func(err error) bool {
		pe, ok := err.(*fs.PathError)
		return ok && pe.Err == notExist
	})
	zz.Stub("os.Open", func(name string) (*os.File, error) {
		f, ok := d.files[filepath.Base(name)]
		if !ok || filepath.Dir(name) != d.path {
			return nil, &fs.PathError{Op: "open", Path: name, Err: notExist}
		}
		h := new(os.File)
		d.open[h] = &c23handle{f: f}
		d.names[h] = filepath.Base(name)
		return h, nil
	})
	zz.Stub("(*os.File).Stat", func(h *os.File) (fs.FileInfo, error) {
		return c23finfo{d.names[h], d.open[h].f}, nil
	})
	zz.Stub("(*os.File).Read", func(h *os.File, b []byte) (int, error) {
		hd := d.open[h]
		if hd.pos >= len(hd.f.content) {
			return 0, io.EOF
		}
		n := copy(b, hd.f.content[hd.pos:])
		hd.pos += n
		return n, nil
	})
	zz.Stub("(*os.File).Close", func(h *os.File) error { return nil })
	zz.Stub("github.com/snapcore/snapd/osutil.AtomicWrite", func(filename string, reader io.Reader, perm os.FileMode, flags AtomicWriteFlags) error {
		idx := d.writes
		d.writes++
		if idx == d.failWriteAt {
			return errors.New("injected write failure")
		}
		data, err := io.ReadAll(reader)
		if err != nil {
			return err
		}
		d.files[filepath.Base(filename)] = &c23file{content: data, mode: perm}
		return nil
	})
	zz.Stub("path/filepath.Glob", func(pattern string) ([]string, error) {
		var names []string
		for n := range d.files {
			names = append(names, n)
		}
		sort.Strings(names)
		var out []string
		for _, n := range names {
			p := filepath.Join(d.path, n)
			ok, err := filepath.Match(pattern, p)
			if err != nil {
				return nil, err
			}
			if ok {
				out = append(out, p)
			}
		}
		return out, nil
	})
	zz.Stub("os.Remove", func(name string) error {
		base := filepath.Base(name)
		if _, ok := d.files[base]; !ok {
			return &fs.PathError{Op: "remove", Path: name, Err: notExist}
		}
		if base == d.failRemove {
			return errors.New("injected removal failure")
		}
		delete(d.files, base)
		return nil
	})
}

func c23mode(name string) os.FileMode {
	if zz.NondetBool(name) {
		return 0600
	}
	return 0644
}

// c23content: an empty file, or n symbolic bytes
func c23content(name string, n int) []byte {
	if zz.NondetBool(name + ".empty") {
		return []byte{}
	}
	return zz.NondetBytes(name, n)
}

func c23sameBytes(a, b []byte) bool {
	if len(a) != len(b) {
		return false
	}
	eq := true
	for k := range a {
		eq = zz.And(eq, a[k] == b[k])
	}
	return eq
}

func c23contains(l []string, s string) bool {
	for _, x := range l {
		if x == s {
			return true
		}
	}
	return false
}

func Harness_C23_EnsureDirState() {
	n := zz.Param("c23.len", 2)
	d := &c23dir{path: "/var/lib/snapd/profiles", files: map[string]*c23file{}, open: map[*os.File]*c23handle{}, names: map[*os.File]string{}, failWriteAt: -1}
	managed := []string{"snap.a.x", "snap.a.y"}
	all := append([]string{}, managed...)
	all = append(all, "snap.b.x") // another snap's file: does not match the pattern
	// initial directory
	before := map[string]*c23file{}
	for _, name := range all {
		if zz.NondetBool("initial." + name) {
			f := &c23file{content: c23content("initial.content."+name, n), mode: c23mode("initial.mode." + name)}
			d.files[name] = f
			before[name] = &c23file{content: f.content, mode: f.mode}
		}
	}
	// desired content
	content := map[string]FileState{}
	want := map[string]*c23file{}
	for _, name := range managed {
		if zz.NondetBool("desired." + name) {
			w := &c23file{content: c23content("desired.content."+name, n), mode: c23mode("desired.mode." + name)}
			want[name] = w
			content[name] = &MemoryFileState{Content: w.content, Mode: w.mode}
		}
	}
	switch zz.NondetRange("fault", 0, 2) {
	case 1:
		d.failWriteAt = zz.NondetRange("failing-write", 0, 1)
	case 2:
		d.failRemove = managed[zz.NondetRange("failing-removal", 0, 1)]
	}
	c23install(d)

	changed, removed, err := EnsureDirState(d.path, "snap.a.*", content)

	// another snap's file is never touched
	if b, ok := before["snap.b.x"]; ok {
		f := d.files["snap.b.x"]
		zz.Assert(f != nil && f.mode == b.mode, "C23/unrelated-file-untouched")
		if f != nil {
			zz.Assert(c23sameBytes(f.content, b.content), "C23/unrelated-file-content-untouched")
		}
	} else {
		zz.Assert(d.files["snap.b.x"] == nil, "C23/unrelated-file-not-created")
	}
	writeFailed := d.failWriteAt >= 0 && d.writes > d.failWriteAt
	if err == nil {
		zz.Assert(!writeFailed, "C23/write-failure-is-reported")
		for _, name := range managed {
			w, desired := want[name]
			f := d.files[name]
			b, existed := before[name]
			if desired {
				zz.Assert(f != nil, "C23/desired-file-present")
				if f != nil {
					zz.Assert(f.mode == w.mode, "C23/desired-file-mode")
					zz.Assert(c23sameBytes(f.content, w.content), "C23/desired-file-content")
				}
				// reported as changed exactly when it was missing or differed
				same := false
				if existed {
					same = zz.And(b.mode.Perm() == w.mode.Perm(), c23sameBytes(b.content, w.content))
				}
				zz.Assert(zz.Or(zz.And(same, !c23contains(changed, name)), zz.And(zz.Not(same), c23contains(changed, name))), "C23/changed-list-exact")
				zz.Assert(!c23contains(removed, name), "C23/desired-file-not-reported-removed")
			} else {
				zz.Assert(f == nil, "C23/undesired-managed-file-removed")
				zz.Assert(c23contains(removed, name) == existed, "C23/removed-list-exact")
				zz.Assert(!c23contains(changed, name), "C23/removed-file-not-reported-changed")
			}
		}
	} else if writeFailed && d.failRemove == "" {
		// fail closed: none of the snap's managed files remain
		for _, name := range managed {
			zz.Assert(d.files[name] == nil, "C23/fail-closed-no-managed-file-remains")
		}
		zz.Assert(len(changed) == 0, "C23/fail-closed-reports-no-changed-files")
	}
	zz.Reach("end")
}
