package daemon

// C26 — REST API requests are served only to callers the endpoint's access level allows.

import (
	"errors"
	"net/http"

	"github.com/snapcore/snapd/dirs"
	"github.com/snapcore/snapd/overlord/auth"
	"github.com/snapcore/snapd/overlord/state"
	"github.com/snapcore/snapd/polkit"
	zz "github.com/snapcore/snapd/zzverif"
)

type c26caller struct {
	ucred        *ucrednet
	onSnapd      bool // request came in on snapd.socket
	onSnap       bool // request came in on snapd-snap.socket
	user         *auth.UserState
	polkitOK     bool // polkit (if asked) authorizes
	polkitAction string
	req          *http.Request
}

// c26setup builds the symbolic caller and stubs the environment (polkit, cgroup lookup).
func c26setup() *c26caller {
	dirs.SnapdSocket = "/run/snapd.socket"
	dirs.SnapSocket = "/run/snapd-snap.socket"
	c := &c26caller{}
	if zz.NondetBool("has-ucred") {
		sock := []string{dirs.SnapdSocket, dirs.SnapSocket, "/run/other.socket", ""}[zz.NondetRange("socket", 0, 3)]
		c.ucred = &ucrednet{Pid: zz.NondetI32("pid"), Uid: zz.NondetU32("uid"), Socket: sock}
		c.onSnapd = sock == dirs.SnapdSocket
		c.onSnap = sock == dirs.SnapSocket
	}
	if zz.NondetBool("has-user") {
		c.user = &auth.UserState{ID: 1, Username: "user"}
	}
	if zz.NondetBool("has-polkit-action") {
		c.polkitAction = "io.snapcraft.snapd.manage"
	}
	authorized := zz.NondetBool("polkit-authorized")
	perr := []error{nil, polkit.ErrDismissed, errors.New("polkit broke")}[zz.NondetRange("polkit-error", 0, 2)]
	c.polkitOK = zz.And(authorized, perr == nil)
	polkitCheckAuthorization = func(pid int32, uid uint32, actionId string, details map[string]string, flags polkit.CheckFlags) (bool, error) {
		zz.Assert(zz.And(pid == c.ucred.Pid, uid == c.ucred.Uid), "C26/polkit-asked-about-the-peer")
		return authorized, perr
	}
	c.req = &http.Request{Method: "GET", Header: http.Header{}, RemoteAddr: "pid=100;uid=1000;socket=" + dirs.SnapSocket + ";"}
	return c
}

func (c *c26caller) isRoot() bool { return c.ucred.Uid == 0 }

// c26authenticated is the statement's "root, a logged-in user or a polkit-authorized caller".
func (c *c26caller) authenticated() bool {
	return zz.Or(c.user != nil, zz.Or(c.isRoot(), zz.And(c.polkitAction != "", c.polkitOK)))
}

// Harness_C26_SocketLevels: open, authenticated, root-only and snap(ctl) access levels.
func Harness_C26_SocketLevels() {
	c := c26setup()
	d := &Daemon{state: state.New(nil)}

	open := openAccess{}.CheckAccess(d, c.req, c.ucred, c.user) == nil
	zz.Assert(open == (c.ucred != nil && c.onSnapd), "C26/open-only-on-snapd-socket-with-credentials")

	snapctl := snapAccess{}.CheckAccess(d, c.req, c.ucred, c.user) == nil
	zz.Assert(snapctl == (c.ucred != nil && c.onSnap), "C26/snap-access-only-on-snap-socket")

	root := rootAccess{}.CheckAccess(d, c.req, c.ucred, c.user) == nil
	if c.ucred == nil {
		zz.Assert(!root, "C26/root-needs-credentials")
	} else {
		zz.Assert(root == zz.And(c.onSnapd, c.isRoot()), "C26/root-only-uid-0-on-snapd-socket")
	}

	authd := authenticatedAccess{Polkit: c.polkitAction}.CheckAccess(d, c.req, c.ucred, c.user) == nil
	if c.ucred == nil {
		zz.Assert(!authd, "C26/authenticated-needs-credentials")
	} else {
		zz.Assert(authd == zz.And(c.onSnapd, c.authenticated()), "C26/authenticated-only-root-user-or-polkit")
	}
	zz.Reach("end")
}

// Harness_C26_InterfaceLevels: interface-gated endpoints on the snap socket.
func Harness_C26_InterfaceLevels() {
	c := c26setup()
	st := state.New(nil)
	d := &Daemon{state: st}
	// who is calling, according to the cgroup of the peer pid
	callers := []string{"consumer", "other"}
	caller := callers[zz.NondetRange("calling-snap", 0, 1)]
	lookupFails := zz.NondetBool("cgroup-lookup-fails")
	cgroupSnapNameFromPid = func(pid int) (string, error) {
		zz.Assert(int32(pid) == c.ucred.Pid, "C26/snap-looked-up-for-the-peer-pid")
		if lookupFails {
			return "", errors.New("no cgroup")
		}
		return caller, nil
	}
	// two stored connections with symbolic interface / undesired / hotplug-gone
	ifaces := []string{"gated", "ungated"}
	i1 := ifaces[zz.NondetRange("conn1.iface", 0, 1)]
	i2 := ifaces[zz.NondetRange("conn2.iface", 0, 1)]
	u1, h1 := zz.NondetBool("conn1.undesired"), zz.NondetBool("conn1.hotplug-gone")
	u2, h2 := zz.NondetBool("conn2.undesired"), zz.NondetBool("conn2.hotplug-gone")
	st.Lock()
	st.Set("conns", map[string]interface{}{
		"consumer:p1 producer:s1": map[string]interface{}{"interface": i1, "undesired": u1, "hotplug-gone": h1},
		"other:p2 producer:s2":    map[string]interface{}{"interface": i2, "undesired": u2, "hotplug-gone": h2},
	})
	st.Unlock()
	active1 := zz.And(i1 == "gated", zz.Not(zz.Or(u1, h1)))
	active2 := zz.And(i2 == "gated", zz.Not(zz.Or(u2, h2)))
	connected := zz.And(!lookupFails, zz.Or(zz.And(caller == "consumer", active1), zz.And(caller == "other", active2)))
	gate := zz.Or(c.onSnapd, zz.And(c.onSnap, connected))

	before := c.req.RemoteAddr
	open := interfaceOpenAccess{Interfaces: []string{"gated"}}.CheckAccess(d, c.req, c.ucred, c.user) == nil
	if c.ucred == nil {
		zz.Assert(!open, "C26/interface-open-needs-credentials")
	} else {
		zz.Assert(open == gate, "C26/interface-open-needs-active-connection-on-snap-socket")
	}
	if !open {
		zz.Assert(c.req.RemoteAddr == before, "C26/refused-request-gets-no-interface-attached")
	}
	c.req.RemoteAddr = before
	authd := interfaceAuthenticatedAccess{Interfaces: []string{"gated"}, Polkit: c.polkitAction}.CheckAccess(d, c.req, c.ucred, c.user) == nil
	if c.ucred == nil {
		zz.Assert(!authd, "C26/interface-authenticated-needs-credentials")
	} else {
		zz.Assert(authd == zz.And(gate, c.authenticated()), "C26/interface-authenticated-needs-connection-and-authentication")
	}
	zz.Reach("end")
}

func c26digits(name string, n int) string {
	s := zz.NondetString(name, n)
	ok := true
	for k := 0; k < n; k++ {
		ok = zz.And(ok, s[k] < 0x80)
	}
	zz.Assume(ok)
	return s
}

// c26value is the number a digit string denotes (wide enough not to wrap for <= 12 digits).
func c26value(s string) (v uint64, allDigits bool) {
	allDigits = true
	for k := 0; k < len(s); k++ {
		allDigits = zz.And(allDigits, zz.And(s[k] >= '0', s[k] <= '9'))
		v = v*10 + uint64(s[k]-'0')
	}
	return v, allDigits
}

// Harness_C26_PeerCredentials: a remote-address string is only ever parsed into the credentials it
// spells; anything else (missing, out of range, malformed) yields no credentials.
func Harness_C26_PeerCredentials() {
	np := zz.NondetRange("pid.len", 1, zz.Param("c26.piddigits", 10))
	nu := zz.NondetRange("uid.len", 1, zz.Param("c26.uiddigits", 10))
	pid := c26digits("pid", np)
	uid := c26digits("uid", nu)
	sock := c26digits("socket", 3)
	addr := "pid=" + pid + ";uid=" + uid + ";socket=" + sock + ";"
	ucred, err := ucrednetGet(addr)
	pv, pd := c26value(pid)
	uv, ud := c26value(uid)
	wellFormed := zz.And(zz.And(pd, ud), zz.And(zz.And(sock[0] != ';', sock[1] != ';'), sock[2] != ';'))
	valid := zz.And(wellFormed, zz.And(zz.And(pv >= 1, pv <= 0x7fffffff), uv < 0xffffffff))
	zz.Assert((err == nil) == (ucred != nil), "C26/credentials-or-error")
	if err == nil {
		zz.Assert(valid, "C26/only-well-formed-in-range-credentials-are-accepted")
		zz.Assert(zz.And(uint64(int64(ucred.Pid)) == pv, uint64(ucred.Uid) == uv), "C26/parsed-credentials-are-the-ones-spelled")
		zz.Assert(zz.StrEq(ucred.Socket, sock), "C26/parsed-socket-is-the-one-spelled")
	} else {
		zz.Assert(zz.Not(valid), "C26/valid-credentials-are-not-dropped")
	}
	zz.Reach("end")
}
