package timeutil

// C16 (limit part) — the next refresh is the earliest timer window, unless the maximum
// postponement after the last refresh comes first; overdue means now.

import (
	"time"

	zz "github.com/snapcore/snapd/zzverif"
)

func c16time(name string) time.Time {
	sec := zz.NondetI64(name + ".sec")
	zz.Assume(zz.And(sec >= 1000000000, sec < 4000000000))
	return time.Unix(sec, 0).UTC()
}

func Harness_C16_NextWithinLimit() {
	now := c16time("now")
	last := c16time("last")
	timeNow = func() time.Time { return now }
	maxDur := []time.Duration{95 * 24 * time.Hour, time.Hour, 0}[zz.NondetRange("maxdur", 0, 2)]
	nsched := zz.NondetRange("schedules", 0, zz.Param("c16.schedules", 2))
	var scheds []*Schedule
	wins := map[*Schedule]ScheduleWindow{}
	for k := 0; k < nsched; k++ {
		name := "w" + string(rune('0'+k))
		s := &Schedule{}
		w := ScheduleWindow{Start: c16time(name + ".start"), End: c16time(name + ".end"), Spread: zz.NondetBool(name + ".spread")}
		zz.Assume(zz.Not(w.End.Before(w.Start)))
		wins[s] = w
		scheds = append(scheds, s)
	}
	// the calendar computation of each schedule's next window is not under test here
	zz.Stub("(*github.com/snapcore/snapd/timeutil.Schedule).Next", func(s *Schedule, last time.Time) ScheduleWindow {
		return wins[s]
	})
	fracSec := zz.NondetI64("random.sec")
	zz.Stub("github.com/snapcore/snapd/randutil.RandomDuration", func(d time.Duration) time.Duration {
		// any whole number of seconds in [0, d)
		zz.Assume(zz.And(fracSec >= 0, fracSec < 1000000000))
		r := time.Duration(fracSec) * time.Second
		zz.Assume(r < d)
		return r
	})

	d := Next(scheds, last, maxDur)

	limit := last.Add(maxDur)
	// reference: the earliest start among the limit and the windows
	chosenStart := limit
	chosenEnd := limit
	chosenSpread := false
	for _, s := range scheds {
		w := wins[s]
		if w.Start.Before(chosenStart) {
			chosenStart, chosenEnd, chosenSpread = w.Start, w.End, w.Spread
		}
	}
	zz.Assert(d >= 0, "C16/delay-not-negative")
	zz.Assert(zz.Not(chosenStart.After(limit)), "C16/no-window-chosen-past-the-limit")
	when := now.Add(d)
	if chosenStart.Before(now) {
		zz.Assert(d == 0, "C16/overdue-means-now")
	} else if !chosenSpread {
		zz.Assert(when.Equal(chosenStart), "C16/next-attempt-at-earliest-window-or-limit")
		zz.Assert(zz.Not(when.After(limit)), "C16/never-postponed-past-limit")
	} else {
		zz.Assert(zz.And(zz.Not(when.Before(chosenStart)), zz.Not(when.After(chosenEnd))), "C16/spread-attempt-inside-window")
	}
	zz.Reach("end")
}
