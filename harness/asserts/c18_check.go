package asserts

// C18 — only correctly signed, currently valid assertions are accepted.
//
// Everything around the cryptography: the key's validity window against an arbitrary clock (or an
// arbitrary "earliest time"), the assertion's own timestamp, the authority/key match, signing
// constraints and the order-independent conjunction of the checkers in Database.Check.  The
// signature primitive itself (decoding the signature packet, RSA over SHA3) is replaced by an
// arbitrary yes/no answer — the solvers cannot decide anything about those loops.

import (
	"errors"
	"io"
	"time"

	"golang.org/x/crypto/openpgp/packet"

	zz "github.com/snapcore/snapd/zzverif"
)

func c18time(name string) time.Time {
	sec := zz.NondetI64(name + ".sec")
	zz.Assume(zz.And(sec >= 1000000000, sec < 4000000000))
	return time.Unix(sec, 0).UTC()
}

// le: a <= b
func c18le(a, b time.Time) bool { return zz.Not(b.Before(a)) }
func c18lt(a, b time.Time) bool { return a.Before(b) }

// Harness_C18_Window: the validity-window predicates against their documented meaning.
func Harness_C18_Window() {
	su := &sinceUntil{since: c18time("since")}
	hasUntil := zz.NondetBool("has-until")
	if hasUntil {
		su.until = c18time("until")
	}
	when := c18time("when")
	want := zz.And(c18le(su.since, when), zz.Or(!hasUntil, c18lt(when, su.until)))
	got := su.isValidAt(when)
	zz.Assert(zz.Or(zz.And(got, want), zz.And(zz.Not(got), zz.Not(want))), "C18/valid-at-means-since-inclusive-until-exclusive")

	earliest := c18time("earliest")
	var latest time.Time
	hasLatest := zz.NondetBool("has-latest")
	if hasLatest {
		latest = c18time("latest")
	}
	// some instant t with earliest <= t (<= latest) and since <= t (< until) exists
	wantRange := zz.And(
		zz.Or(!hasLatest, zz.And(c18le(earliest, latest), c18le(su.since, latest))),
		zz.Or(!hasUntil, c18lt(earliest, su.until)))
	// (with an empty validity window, until <= since, nothing is ever valid; the range form is only
	// documented for proper windows)
	proper := zz.Or(!hasUntil, c18lt(su.since, su.until))
	gotRange := su.isValidAssumingCurTimeWithin(earliest, latest)
	zz.Assert(zz.Implies(proper, zz.Or(zz.And(gotRange, wantRange), zz.And(zz.Not(gotRange), zz.Not(wantRange)))), "C18/possibly-valid-means-windows-intersect")
	zz.Reach("end")
}

type c18pub struct {
	id string
	ok bool
}

func (k *c18pub) ID() string { return k.id }
func (k *c18pub) verify(content []byte, sig *packet.Signature) error {
	if k.ok {
		return nil
	}
	return errors.New("signature does not verify")
}
func (k *c18pub) keyEncode(w io.Writer) error { return nil }

// Harness_C18_Check: Database.Check accepts exactly when every condition of the statement holds.
func Harness_C18_Check() {
	now := c18time("now")
	timeNow = func() time.Time { return now }
	sigDecodes := zz.NondetBool("signature-decodes")
	zz.Stub("github.com/snapcore/snapd/asserts.decodeSignature", func(b []byte) (*packet.Signature, error) {
		if sigDecodes {
			return &packet.Signature{}, nil
		}
		return nil, errors.New("cannot decode signature")
	})
	trusted := NewMemoryBackstore()
	stored := NewMemoryBackstore()
	db := &Database{bs: stored, trusted: trusted, predefined: NewMemoryBackstore(), checkers: DefaultCheckers}
	db.backstores = []Backstore{trusted, db.predefined, stored}
	trusted.Put(AccountType, &Account{assertionBase: assertionBase{headers: map[string]interface{}{"type": "account", "authority-id": "canonical", "account-id": "canonical"}}})
	earliestSet := zz.NondetBool("earliest-time-set")
	var earliest time.Time
	if earliestSet {
		earliest = c18time("earliest")
		db.SetEarliestTime(earliest)
	}

	// the signing key as known to the database
	owners := []string{"canonical", "other"}
	keyOwner := owners[zz.NondetRange("key.owner", 0, 1)]
	key := &AccountKey{assertionBase: assertionBase{headers: map[string]interface{}{"type": "account-key", "authority-id": "canonical",
		"account-id": keyOwner, "public-key-sha3-384": "KEYID"}}}
	key.since = c18time("key.since")
	hasUntil := zz.NondetBool("key.has-until")
	if hasUntil {
		key.until = c18time("key.until")
		zz.Assume(c18lt(key.since, key.until))
	}
	verifies := zz.NondetBool("signature-verifies")
	key.pubKey = &c18pub{id: "KEYID", ok: verifies}
	constrained := zz.NondetBool("key.constraints-exclude-assertion")
	if constrained {
		key.constraintMatchers = []attrMatcher{fixedAttrMatcher{errors.New("not allowed")}}
	}
	if zz.NondetBool("key.trusted") {
		trusted.Put(AccountKeyType, key)
	} else {
		stored.Put(AccountKeyType, key)
	}

	// the assertion under check
	authority := owners[zz.NondetRange("assertion.authority", 0, 1)]
	signedWith := []string{"KEYID", "ANOTHERKEY"}[zz.NondetRange("assertion.sign-key", 0, 1)]
	ts := c18time("assertion.timestamp")
	a := &Account{assertionBase: assertionBase{headers: map[string]interface{}{"type": "account", "authority-id": authority,
		"account-id": "someone", "sign-key-sha3-384": signedWith}}, timestamp: ts}

	keyFound := signedWith == "KEYID"
	keyOfAuthority := keyOwner == authority
	var currentlyValid bool
	if earliestSet {
		currentlyValid = zz.Or(!hasUntil, c18lt(earliest, key.until))
	} else {
		currentlyValid = zz.And(c18le(key.since, now), zz.Or(!hasUntil, c18lt(now, key.until)))
	}
	validAtTimestamp := zz.And(c18le(key.since, ts), zz.Or(!hasUntil, c18lt(ts, key.until)))
	want := zz.And(zz.And(keyFound && keyOfAuthority && !constrained && sigDecodes && verifies, currentlyValid),
		zz.And(validAtTimestamp, authority == "canonical")) // (account assertions must come from a trusted authority)

	err := db.Check(a)
	zz.Assert(zz.Implies(err == nil, want), "C18/accepted-only-if-every-condition-holds")
	zz.Assert(zz.Implies(want, err == nil), "C18/rejected-only-for-a-stated-reason")
	zz.Reach("end")
}

// Harness_C18_Stacked: with databases stacked on one another (as a Batch precheck builds them), the
// copy of the signing key that counts is the one in the newest level that has one.
func Harness_C18_Stacked() {
	now := c18time("now")
	timeNow = func() time.Time { return now }
	zz.Stub("github.com/snapcore/snapd/asserts.decodeSignature", func(b []byte) (*packet.Signature, error) {
		return &packet.Signature{}, nil
	})
	trusted := NewMemoryBackstore()
	trusted.Put(AccountType, &Account{assertionBase: assertionBase{headers: map[string]interface{}{"type": "account", "authority-id": "canonical", "account-id": "canonical"}}})
	base := &Database{bs: NewMemoryBackstore(), trusted: trusted, predefined: NewMemoryBackstore(), checkers: DefaultCheckers}
	base.backstores = []Backstore{trusted, base.predefined, base.bs}
	levels := []*Database{base}
	for l := 1; l <= zz.Param("c18.levels", 2); l++ {
		levels = append(levels, levels[l-1].WithStackedBackstore(NewMemoryBackstore()))
	}
	// each level may hold its own revision of the key, with its own expiry
	var newest *AccountKey
	for l, db := range levels {
		ln := "level" + string(rune('0'+l))
		if !zz.NondetBool(ln + ".has-key") {
			continue
		}
		key := &AccountKey{assertionBase: assertionBase{headers: map[string]interface{}{"type": "account-key", "authority-id": "canonical",
			"account-id": "canonical", "public-key-sha3-384": "KEYID"}, revision: l}}
		key.since = time.Unix(1000000000, 0)
		if zz.NondetBool(ln + ".key-expires") {
			key.until = c18time(ln + ".until")
		}
		key.pubKey = &c18pub{id: "KEYID", ok: true}
		if err := db.bs.Put(AccountKeyType, key); err != nil {
			panic(err)
		}
		newest = key
	}
	top := levels[len(levels)-1]
	a := &Account{assertionBase: assertionBase{headers: map[string]interface{}{"type": "account", "authority-id": "canonical",
		"account-id": "someone", "sign-key-sha3-384": "KEYID"}}, timestamp: time.Unix(1000000001, 0)}
	err := top.Check(a)
	if newest == nil {
		zz.Assert(err != nil, "C18/no-key-no-acceptance")
	} else {
		valid := zz.And(c18le(newest.since, now), zz.Or(newest.until.IsZero(), c18lt(now, newest.until)))
		tsValid := zz.Or(newest.until.IsZero(), c18lt(a.timestamp, newest.until))
		want := zz.And(valid, tsValid)
		zz.Assert(zz.Implies(err == nil, want), "C18/newest-key-revision-decides-acceptance")
		zz.Assert(zz.Implies(want, err == nil), "C18/newest-key-revision-decides-rejection")
	}
	zz.Reach("end")
}
