package asserts

// C20 — assertions survive encoding and malformed input is rejected safely.

import (
	"bytes"
	"reflect"
	"sort"

	zz "github.com/snapcore/snapd/zzverif"
)

// c20text: a string of up to max bytes over the characters that matter to the header grammar
func c20text(name string, max int) string {
	n := zz.NondetRange(name+".len", 0, max)
	s := zz.NondetString(name, n)
	for i := 0; i < n; i++ {
		c := s[i]
		zz.Assume(zz.Or(zz.Or(c == 'a', c == '0'), zz.Or(zz.Or(c == '-', c == ':'), zz.Or(c == ' ', c == '\n'))))
	}
	return s
}

func c20encode(headers map[string]interface{}) []byte {
	buf := bytes.NewBuffer(nil)
	keys := make([]string, 0, len(headers))
	for k := range headers {
		keys = append(keys, k)
	}
	sort.Strings(keys)
	for _, k := range keys {
		appendEntry(buf, k+":", headers[k], 0)
	}
	b := buf.Bytes()
	if len(b) > 0 {
		b = b[1:] // appendEntry starts every entry with a newline
	}
	return b
}

// every header value (string, list of strings, map) written by the encoder parses back to itself
func Harness_C20_HeaderRoundTrip() {
	max := zz.Param("c20.valuelen", 3)
	var v interface{}
	switch zz.NondetRange("shape", 0, 3) {
	case 0:
		v = c20text("s", max)
	case 1:
		v = []interface{}{c20text("l0", max), c20text("l1", max-1)}
	case 2:
		v = map[string]interface{}{"k": c20text("m", max)}
	case 3:
		v = []interface{}{map[string]interface{}{"k": c20text("lm", max-1)}, c20text("l1", 1)}
	}
	headers := map[string]interface{}{"name": v, "zz": "end"}
	text := c20encode(headers)
	back, err := parseHeaders(text)
	zz.Assert(err == nil, "C20/encoded-headers-parse")
	if err == nil {
		zz.Assert(reflect.DeepEqual(back, headers), "C20/headers-roundtrip")
	}
	zz.Reach("end")
}

// arbitrary input: no crash, and whatever is accepted is stable under re-encoding
func Harness_C20_ParseRobust() {
	in := c20text("in", zz.Param("c20.inputlen", 6))
	h, err := parseHeaders([]byte(in))
	if err != nil {
		zz.Reach("rejected")
		return
	}
	zz.Assert(checkHeaders(h) == nil, "C20/parsed-headers-are-well-formed")
	again, err2 := parseHeaders(c20encode(h))
	zz.Assert(err2 == nil, "C20/accepted-input-reencodes")
	if err2 == nil {
		zz.Assert(reflect.DeepEqual(again, h), "C20/accepted-input-stable")
	}
	zz.Reach("accepted")
}

type c20parts struct {
	headers                  map[string]interface{}
	body, content, signature []byte
}

// the streaming decoder splits a stream exactly like the one-shot decoder, whatever the read-buffer size
func Harness_C20_StreamFraming() {
	var got []c20parts
	zz.Stub("github.com/snapcore/snapd/asserts.assemble", func(headers map[string]interface{}, body, content, signature []byte) (Assertion, error) {
		got = append(got, c20parts{headers, append([]byte(nil), body...), append([]byte(nil), content...), append([]byte(nil), signature...)})
		return nil, nil
	})
	// one or two assertions; header value length, body length and signature length are solver-chosen
	mk := func(name string) []byte {
		pad := zz.NondetRange(name+".pad", 0, zz.Param("c20.pad", 8))
		blen := zz.NondetRange(name+".body", 0, 2)
		slen := zz.NondetRange(name+".sig", 1, 3)
		// the value's bytes do not matter to the framing; its length (solver-chosen) does
		val := "xxxxxxxxxxxxxxxxxxxxxxxxxxxxxxxxxxxxxxxxxxxxxxxxxxxxxxxxxxxxxxxx"[:pad]
		text := "type: t\nk: " + val
		if blen > 0 {
			text += "\nbody-length: " + string(rune('0'+blen))
		}
		text += "\n\n"
		if blen > 0 {
			text += "BODY"[:blen] + "\n\n"
		}
		text += "SIG"[:slen] + "\n"
		return []byte(text)
	}
	first := mk("a1")
	stream := append([]byte(nil), first...)
	two := zz.NondetBool("two")
	var second []byte
	if two {
		second = mk("a2")
		stream = append(append(stream, '\n'), second...)
	}
	// bufio enforces a minimum buffer of 16 bytes; 16 is also what the package's own stress tests use
	bufSize := 16
	dec := (&Decoder{rd: bytes.NewReader(stream), initialBufSize: bufSize, maxHeadersSize: 1024, maxSigSize: 1024, defaultMaxBodySize: 1024}).initBuffer()
	_, err := dec.Decode()
	zz.Assert(err == nil, "C20/stream-first-decodes")
	if two {
		_, err = dec.Decode()
		if err != nil && zz.Param("debug", 0) == 1 {
			println("stream second:", err.Error(), "stream=", string(stream))
		}
		zz.Assert(err == nil, "C20/stream-second-decodes")
	}
	streamed := got
	got = nil
	_, err = Decode(first)
	zz.Assert(err == nil, "C20/oneshot-first-decodes")
	if two {
		_, err = Decode(second)
		zz.Assert(err == nil, "C20/oneshot-second-decodes")
	}
	zz.Assert(len(streamed) == len(got), "C20/same-number-of-assertions")
	if len(streamed) == len(got) {
		for k := range got {
			zz.Assert(reflect.DeepEqual(streamed[k].headers, got[k].headers), "C20/stream-headers-equal")
			zz.Assert(bytes.Equal(streamed[k].body, got[k].body), "C20/stream-body-equal")
			zz.Assert(bytes.Equal(streamed[k].content, got[k].content), "C20/stream-content-equal")
			zz.Assert(bytes.Equal(streamed[k].signature, got[k].signature), "C20/stream-signature-equal")
		}
	}
	zz.Reach("end")
}
