package asserts

// C19 — stored assertions only move forward in revision (memory backstore).
//
// A short history of Put operations with symbolic revisions and formats over two identities,
// checked after every step against a reference kept by the harness: the store returns the
// highest revision successfully added, refuses equal or lower revisions and is unchanged by a
// refusal; and for a sequence-forming type, lookups by sequence number return the right member
// whatever the order in which the members were added.

import (
	"errors"
	"io"
	"io/fs"
	"os"
	"path/filepath"
	"strconv"
	"strings"
	"time"

	zz "github.com/snapcore/snapd/zzverif"
)

func c19decl(id string, rev, format int) *SnapDeclaration {
	return &SnapDeclaration{assertionBase: assertionBase{
		headers:  map[string]interface{}{"type": "snap-declaration", "series": "16", "snap-id": id, "authority-id": "canonical"},
		revision: rev,
		format:   format,
	}}
}

func c19vset(seq, rev, format int) *ValidationSet {
	return &ValidationSet{assertionBase: assertionBase{
		headers: map[string]interface{}{"type": "validation-set", "series": "16", "account-id": "acc", "name": "vs",
			"sequence": strconv.Itoa(seq), "authority-id": "acc"},
		revision: rev,
		format:   format,
	}, seq: seq}
}

type c19rec struct {
	a      Assertion
	rev    int
	format int
}

// Harness_C19_Revisions: Put/Get over two snap-declaration identities.
func Harness_C19_Revisions() {
	bs := NewMemoryBackstore()
	ids := []string{"snapidsnapidsnapidsnapidsnapid01", "snapidsnapidsnapidsnapidsnapid02"}
	maxf := SnapDeclarationType.MaxSupportedFormat()
	// reference: per identity, the successfully added assertions in order
	added := map[string][]c19rec{}
	nops := zz.Param("c19.ops", 3)
	for op := 0; op < nops; op++ {
		on := "op" + string(rune('0'+op))
		id := ids[zz.NondetRange(on+".identity", 0, zz.Param("c19.identities", 2)-1)]
		rev := zz.NondetInt(on + ".revision")
		format := zz.NondetInt(on + ".format")
		zz.Assume(zz.And(rev >= 0, zz.And(format >= 0, format <= zz.Param("c19.formats", 2))))
		a := c19decl(id, rev, format)

		// what the store holds for the identity before
		before, berr := bs.Get(SnapDeclarationType, []string{"16", id}, maxf)
		prev := added[id]
		if len(prev) == 0 {
			zz.Assert(berr != nil, "C19/nothing-stored-before-first-add")
		} else {
			zz.Assert(berr == nil && before == prev[len(prev)-1].a, "C19/returns-highest-revision-added")
		}

		err := bs.Put(SnapDeclarationType, a)
		// refused exactly when an equal or higher revision is there
		mustRefuse := false
		if len(prev) > 0 {
			mustRefuse = prev[len(prev)-1].rev >= rev
		}
		zz.Assert(zz.Implies(mustRefuse, err != nil), "C19/equal-or-lower-revision-refused")
		zz.Assert(zz.Implies(zz.Not(mustRefuse), err == nil), "C19/higher-revision-accepted")
		after, aerr := bs.Get(SnapDeclarationType, []string{"16", id}, maxf)
		if err != nil {
			_, isRev := err.(*RevisionError)
			zz.Assert(isRev, "C19/refusal-is-a-revision-error")
			zz.Assert(after == before && (aerr == nil) == (berr == nil), "C19/refused-add-changes-nothing")
		} else {
			zz.Assert(aerr == nil && after == Assertion(a), "C19/accepted-add-is-returned")
			added[id] = append(prev, c19rec{a, rev, format})
		}
		// the other identity is untouched
		for _, other := range ids {
			if other == id {
				continue
			}
			o, oerr := bs.Get(SnapDeclarationType, []string{"16", other}, maxf)
			if p := added[other]; len(p) == 0 {
				zz.Assert(oerr != nil, "C19/other-identity-still-absent")
			} else {
				zz.Assert(oerr == nil && o == p[len(p)-1].a, "C19/other-identity-untouched")
			}
		}
	}
	// a lookup restricted to an older format returns the highest revision added among those formats
	mf := zz.NondetInt("lookup.maxformat")
	zz.Assume(zz.And(mf >= 0, mf <= zz.Param("c19.formats", 2)))
	for _, id := range ids {
		got, gerr := bs.Get(SnapDeclarationType, []string{"16", id}, mf)
		var want Assertion
		for _, r := range added[id] {
			if r.format <= mf {
				want = r.a // revisions of accepted adds increase, the last one is the highest
			}
		}
		if want == nil {
			zz.Assert(gerr != nil, "C19/format-restricted-lookup-finds-nothing-newer")
		} else {
			zz.Assert(gerr == nil && got == want, "C19/format-restricted-lookup-returns-highest-compatible")
		}
	}
	zz.Reach("end")
}

// Harness_C19_Sequence: members of one validation-set sequence added in any order.
func Harness_C19_Sequence() {
	bs := NewMemoryBackstore()
	maxf := ValidationSetType.MaxSupportedFormat()
	nops := zz.Param("c19.ops", 3)
	maxSeq := zz.Param("c19.maxseq", 4)
	members := map[int]Assertion{} // reference: sequence number -> latest accepted member
	revs := map[int]int{}
	for op := 0; op < nops; op++ {
		on := "op" + string(rune('0'+op))
		seq := zz.NondetRange(on+".sequence", 1, maxSeq)
		rev := zz.NondetInt(on + ".revision")
		zz.Assume(zz.And(rev >= 0, rev < 1000))
		a := c19vset(seq, rev, 0)
		err := bs.Put(ValidationSetType, a)
		mustRefuse := false
		if _, ok := members[seq]; ok {
			mustRefuse = revs[seq] >= rev
		}
		zz.Assert(zz.Implies(mustRefuse, err != nil), "C19/sequence-member-equal-or-lower-revision-refused")
		zz.Assert(zz.Implies(zz.Not(mustRefuse), err == nil), "C19/sequence-member-higher-revision-accepted")
		if err == nil {
			members[seq] = a
			revs[seq] = rev
		}
	}
	// lookups by sequence number
	after := zz.NondetRange("after", -1, maxSeq+1)
	got, gerr := bs.SequenceMemberAfter(ValidationSetType, []string{"16", "acc", "vs"}, after, maxf)
	var want Assertion
	if after == -1 {
		for s := maxSeq; s >= 1 && want == nil; s-- {
			want = members[s]
		}
	} else {
		for s := after + 1; s <= maxSeq && want == nil; s++ {
			want = members[s]
		}
	}
	if want == nil {
		zz.Assert(gerr != nil, "C19/no-later-sequence-member")
	} else {
		zz.Assert(gerr == nil && Assertion(got) == want, "C19/sequence-lookup-returns-the-right-member")
	}
	// each member is retrievable under its own full key
	for s := 1; s <= maxSeq; s++ {
		g, e := bs.Get(ValidationSetType, []string{"16", "acc", "vs", strconv.Itoa(s)}, maxf)
		if m, ok := members[s]; ok {
			zz.Assert(e == nil && g == m, "C19/sequence-member-retrievable")
		} else {
			zz.Assert(e != nil, "C19/absent-sequence-member-not-found")
		}
	}
	zz.Reach("end")
}

// ---- the filesystem backstore over an in-memory directory tree ----
//
// Only the I/O primitives are replaced (directory listing, stat, the atomic file write, reading a
// stored file back); path construction, wildcard walking, file-name format parsing, the revision
// check and the sequence enumeration are the real fsbackstore.go / findwildcard.go code.

type c19info struct {
	name string
	dir  bool
}

func (i c19info) Name() string { return i.name }
func (i c19info) Size() int64  { return 0 }
func (i c19info) Mode() fs.FileMode {
	if i.dir {
		return fs.ModeDir | 0755
	}
	return 0644
}
func (i c19info) ModTime() time.Time { return time.Time{} }
func (i c19info) IsDir() bool        { return i.dir }
func (i c19info) Sys() interface{}   { return nil }

type c19fs struct {
	files   map[string]Assertion // absolute path -> stored assertion
	order   []string             // insertion order (directory listings are deterministic)
	open    map[*os.File]string
	drained map[*os.File]bool
	pending Assertion
}

func (m *c19fs) children(dir string) (names []string, exists bool) {
	seen := map[string]bool{}
	prefix := dir + "/"
	for _, p := range m.order {
		if !strings.HasPrefix(p, prefix) {
			continue
		}
		exists = true
		rest := p[len(prefix):]
		if i := strings.IndexByte(rest, '/'); i >= 0 {
			rest = rest[:i]
		}
		if !seen[rest] {
			seen[rest] = true
			names = append(names, rest)
		}
	}
	return names, exists
}

func c19installFS() *c19fs {
	m := &c19fs{files: map[string]Assertion{}, open: map[*os.File]string{}, drained: map[*os.File]bool{}}
	// (package os is not initialised under the engine: its error values are nil)
	notExist := errors.New("file does not exist")
	zz.Stub("os.IsNotExist", func(err error) bool {
		pe, ok := err.(*fs.PathError)
		return ok && pe.Err == notExist
	})
	zz.Stub("os.Open", func(name string) (*os.File, error) {
		if _, ok := m.children(name); !ok {
			return nil, &fs.PathError{Op: "open", Path: name, Err: notExist}
		}
		f := new(os.File)
		m.open[f] = name
		return f, nil
	})
	zz.Stub("(*os.File).Readdirnames", func(f *os.File, n int) ([]string, error) {
		names, _ := m.children(m.open[f])
		if n > 0 {
			if m.drained[f] {
				return nil, io.EOF
			}
			m.drained[f] = true
		}
		return names, nil
	})
	zz.Stub("(*os.File).Close", func(f *os.File) error { return nil })
	zz.Stub("os.Stat", func(name string) (fs.FileInfo, error) {
		if _, ok := m.files[name]; ok {
			return c19info{name: filepath.Base(name)}, nil
		}
		if _, ok := m.children(name); ok {
			return c19info{name: filepath.Base(name), dir: true}, nil
		}
		return nil, &fs.PathError{Op: "stat", Path: name, Err: notExist}
	})
	zz.Stub("github.com/snapcore/snapd/asserts.atomicWriteEntry", func(data []byte, secret bool, top string, subpath ...string) error {
		p := filepath.Join(top, filepath.Join(subpath...))
		if _, ok := m.files[p]; !ok {
			m.order = append(m.order, p)
		}
		m.files[p] = m.pending
		return nil
	})
	zz.Stub("(*github.com/snapcore/snapd/asserts.filesystemBackstore).readAssertion", func(fsbs *filesystemBackstore, assertType *AssertionType, diskPrimaryPath string) (Assertion, error) {
		a, ok := m.files[filepath.Join(fsbs.top, assertType.Name, diskPrimaryPath)]
		if !ok {
			return nil, errNotFound
		}
		return a, nil
	})
	return m
}

func c19sameOutcome(e1, e2 error) bool {
	if (e1 == nil) != (e2 == nil) {
		return false
	}
	if e1 == nil {
		return true
	}
	_, r1 := e1.(*RevisionError)
	_, r2 := e2.(*RevisionError)
	_, n1 := e1.(*NotFoundError)
	_, n2 := e2.(*NotFoundError)
	return r1 == r2 && n1 == n2
}

// Harness_C19_StoresAgree: the same history applied to the memory and the filesystem backstore.
func Harness_C19_StoresAgree() {
	m := c19installFS()
	mem := NewMemoryBackstore()
	disk := &filesystemBackstore{top: "/db/asserts-v0"}
	ids := []string{"snapidsnapidsnapidsnapidsnapid01", "snapidsnapidsnapidsnapidsnapid02"}
	maxSeq := zz.Param("c19.maxseq", 3)
	nops := zz.Param("c19.ops", 3)
	for op := 0; op < nops; op++ {
		on := "op" + string(rune('0'+op))
		rev := zz.NondetInt(on + ".revision")
		zz.Assume(zz.And(rev >= 0, rev < 1000))
		var a Assertion
		var typ *AssertionType
		if zz.NondetBool(on + ".sequence-forming") {
			typ = ValidationSetType
			// (Database.Add only stores supported formats; validation-set has format 0 only)
			a = c19vset(zz.NondetRange(on+".sequence", 1, maxSeq), rev, zz.NondetRange(on+".format", 0, ValidationSetType.MaxSupportedFormat()))
		} else {
			typ = SnapDeclarationType
			a = c19decl(ids[zz.NondetRange(on+".identity", 0, 1)], rev, zz.NondetRange(on+".format", 0, zz.Param("c19.formats", 2)))
		}
		e1 := mem.Put(typ, a)
		m.pending = a
		e2 := disk.Put(typ, a)
		zz.Assert(c19sameOutcome(e1, e2), "C19/stores-agree-on-put")
	}
	// every lookup gives the same answer
	for _, id := range ids {
		for mf := 0; mf <= zz.Param("c19.formats", 2); mf++ {
			g1, e1 := mem.Get(SnapDeclarationType, []string{"16", id}, mf)
			g2, e2 := disk.Get(SnapDeclarationType, []string{"16", id}, mf)
			zz.Assert(c19sameOutcome(e1, e2) && g1 == g2, "C19/stores-agree-on-get")
		}
	}
	for mf := 0; mf <= ValidationSetType.MaxSupportedFormat(); mf++ {
		for after := -1; after <= maxSeq; after++ {
			s1, e1 := mem.SequenceMemberAfter(ValidationSetType, []string{"16", "acc", "vs"}, after, mf)
			s2, e2 := disk.SequenceMemberAfter(ValidationSetType, []string{"16", "acc", "vs"}, after, mf)
			zz.Assert(c19sameOutcome(e1, e2), "C19/stores-agree-on-sequence-lookup-outcome")
			if e1 == nil && e2 == nil {
				zz.Assert(Assertion(s1) == Assertion(s2), "C19/stores-agree-on-sequence-lookup")
			}
		}
	}
	zz.Reach("end")
}
